"""C09 (bounded contract check): disassembled text reassembles to an equivalent instruction.

Contract on Assembler.assemble for t = text(decode(b)):  assemble(t) succeeds; text(decode(out)) == t;
lifted IL equal; a second disassemble/assemble round is a fixpoint.  Checked over the complete
structural enumeration (every opcode x {no prefix, 15 prefixes} x every selector / mode byte that
the decoder accepts) with operand bytes from a palette.  Labelled bounded: operand VALUES are
sampled, structure is complete."""
from __future__ import annotations

import os
import sys
import time

REPO = os.environ.get("VERIF_REPO", "/repo")
PRE_BYTES = (0x21, 0x22, 0x23, 0x24, 0x25, 0x26, 0x27, 0x30, 0x31, 0x32, 0x33, 0x34, 0x35, 0x36, 0x37)


def _setup():
    os.environ["FORCE_BINJA_MOCK"] = "1"
    if sys.path[0] != REPO:
        if REPO in sys.path:
            sys.path.remove(REPO)
        sys.path.insert(0, REPO)
    from binja_test_mocks import binja_api  # noqa: F401
    from sc62015 import arch as ARCH
    from sc62015.pysc62015.instr import decode, OPCODES
    from sc62015.pysc62015.instr import opcodes as OPC
    from sc62015.pysc62015 import sc_asm as ASM
    from binja_test_mocks import tokens as TOK
    from binja_test_mocks.mock_llil import MockLowLevelILFunction
    return ARCH, decode, OPCODES, OPC, ASM, TOK, MockLowLevelILFunction


def text_for_assembler(tokens, TOK):
    """Rendered token list -> assembler source: numbers as hexadecimal literals (0x..), named
    internal registers by name, everything else verbatim."""
    out = []
    for t in tokens:
        if isinstance(t, TOK.TInt):
            s = str(t)
            sign = ""
            if s[:1] in "+-":
                sign, s = s[0], s[1:]
            out.append(f"{sign}0x{s}")
        elif isinstance(t, TOK.TAddr):
            out.append("0x" + str(t))
        else:
            out.append(str(t))
    return "".join(out)


def il_plain(nodes):
    labels = {}

    def lab(x):
        return labels.setdefault(id(x), len(labels))

    def go(n):
        cls = type(n).__name__
        if cls == "MockLabel":
            return ("LABEL", lab(n.label))
        if cls == "MockGoto":
            return ("GOTO", lab(n.label))
        if cls == "MockIfExpr":
            return ("IF", go(n.cond), lab(n.t), lab(n.f))
        if cls == "MockIntrinsic":
            return ("INTRINSIC", str(n.name))
        if hasattr(n, "op") and hasattr(n, "ops"):
            return (n.op, tuple(go(x) for x in n.ops))
        if cls in ("MockReg", "MockFlag"):
            return (cls, n.name)
        if cls == "LowLevelILLabel":
            return ("L", lab(n))
        return n

    return tuple(go(n) for n in nodes)


def operand_palette(OPC):
    named = sorted({int(m) for m in OPC.IMEMRegisters})
    return [0x00, 0x01, 0x7F, 0x80, 0xFF] + named[:0], named


THIN_B1 = (0x00, 0x01, 0x02, 0x03, 0x04, 0x05, 0x06, 0x07, 0x0C, 0x10, 0x20, 0x24, 0x27, 0x30, 0x34, 0x37, 0x42, 0x45, 0x68, 0x7F,
           0x80, 0x84, 0x87, 0xA4, 0xC0, 0xC4, 0xC7, 0xE4, 0xEC, 0xED, 0xEE, 0xFB, 0xFF)


def candidates(pre, opcode, OPC, thorough=True, thin=False):
    """Byte strings to try for one (prefix, opcode): every selector/mode byte x palette tails
    (thin: 33 representative first operand bytes instead of all 256)."""
    pal, named = operand_palette(OPC)
    lead = ([pre] if pre is not None else []) + [opcode]
    tails = []
    rests = ((0x00, 0x00, 0x00, 0x00), (0x01, 0x7F, 0x80, 0x0F), (0xFF, 0xFF, 0xFF, 0xFF), (0x80, 0x01, 0xFF, 0x02))
    for b1 in (THIN_B1 if thin else range(256)):
        for rest in (rests if thorough else rests[0:2]):
            tails.append((b1,) + rest)
    for n in (named if thorough else named[::5]):
        tails.append((n, 0x10, 0x20, 0x03, 0x00))
        tails.append((0x00, n, 0x20, 0x03, 0x00))
        tails.append((0x80, n, 0x20, 0x03, 0x00))
        tails.append((0x00, 0x10, n, 0x03, 0x00))
    return [bytes(lead) + bytes(t) + b"\x00\x00" for t in tails]


def check_encoding(enc, addr, ctx):
    """decode -> render -> assemble -> decode again: text, lifted IL and a second round must agree."""
    decode, OPCODES, ASM, TOK, ILF = ctx
    ins = decode(enc, addr, OPCODES)
    toks = ins.render()
    text = text_for_assembler(toks, TOK)
    shown = TOK.asm_str(toks)
    fail = None
    try:
        out = ASM.Assembler().assemble(f".ORG 0x{addr:X}\n{text}\n")
        ob = bytes(out.as_binary()) if len(out.segments) else b""
    except Exception as e:  # noqa: BLE001
        fail = ("assemble-fails", f"{type(e).__name__}: {str(e)[:160]}")
        ob = None
    if fail is None:
        ins2 = decode(ob, addr, OPCODES) if ob else None
        if ins2 is None or ins2.length() != len(ob):
            fail = ("reassembled-bytes-do-not-decode", ob.hex())
        else:
            shown2 = TOK.asm_str(ins2.render())
            if shown2 != shown:
                fail = ("text-differs", f"{shown2!r}")
            else:
                il1, il2 = ILF(), ILF()
                ins.lift(il1, addr)
                ins2.lift(il2, addr)
                if il_plain(il1.ils) != il_plain(il2.ils):
                    fail = ("lifted-il-differs", ob.hex())
                else:
                    try:
                        out3 = ASM.Assembler().assemble(f".ORG 0x{addr:X}\n{text_for_assembler(ins2.render(), TOK)}\n")
                        ob3 = bytes(out3.as_binary())
                        if ob3 != ob:
                            fail = ("second-round-not-a-fixpoint", f"{ob.hex()} -> {ob3.hex()}")
                    except Exception as e:  # noqa: BLE001
                        fail = ("second-round-assemble-fails", str(e)[:120])
    return dict(bytes=enc.hex(), text=shown, src=text, fail=fail)


def replay(body):
    """Native replay of one failing encoding (the check itself runs natively; this re-runs it alone)."""
    model = body.get("model") or {}
    if "bytes" not in model:
        return 4, "no encoding recorded"
    ARCH, decode, OPCODES, OPC, ASM, TOK, ILF = _setup()
    r = check_encoding(bytes.fromhex(model["bytes"]), 0x1000, (decode, OPCODES, ASM, TOK, ILF))
    if r["fail"]:
        return 1, f"{r['bytes']}: {r['text']!r} (assembler source {r['src']!r}) -> {r['fail'][0]}: {r['fail'][1]}"
    return 0, f"{r['bytes']}: {r['text']!r} round-trips natively"


def unit(unit):
    t0 = time.time()
    ARCH, decode, OPCODES, OPC, ASM, TOK, ILF = _setup()
    pre, opcode = unit.get("pre"), unit["opcode"]
    arch = ARCH.SC62015()
    addr = 0x1000
    seen = {}
    results = []
    evals = 0
    cands = candidates(pre, opcode, OPC, unit.get("thorough", False), unit.get("thin", False))
    for b in cands:
        info = arch.get_instruction_info(b, addr)
        if info is None:
            continue
        n = info.length
        enc = bytes(b[:n])
        if enc in seen:
            continue
        seen[enc] = True
        evals += 1
        results.append(check_encoding(enc, addr, (decode, OPCODES, ASM, TOK, ILF)))
    failed = [r for r in results if r["fail"]]
    classes = {}
    for r in failed:
        import re
        shape = re.sub(r"0x[0-9A-Fa-f]+|\b[0-9A-F]{2,5}\b", "#", r["text"])
        classes.setdefault((r["fail"][0], shape), r)
    obs = [dict(name=f"roundtrip:{k[0]}", status="failed", backend="enumeration", model=dict(bytes=v["bytes"]),
                detail=f"{v['bytes']}: {v['text']!r} (source {v['src']!r}) -> {v['fail'][1]}") for k, v in sorted(classes.items())]
    return dict(unit=unit, status="ok", error=None, kinds={"candidates": len(cands), "accepted-encodings": evals, "failed": len(failed)},
                obligations=evals, proved=evals - len(failed), failed=obs[:30], nfailed=len(failed), unknown=0,
                undecided_notes=[], stats=dict(paths=evals, queries=0, solver_s=0.0), by_backend={"enumeration": evals - len(failed)},
                wall_s=round(time.time() - t0, 2), allow_empty=(evals == 0),
                sample=dict(bytes=results[0]["bytes"], text=results[0]["text"], source=results[0]["src"]) if results else None)

def unit_listing(unit):
    """A disassembly listing fed to ONE Assembler in one assemble() call gives the bytes the lines give
    one by one (no state carried from line to line).  Lines = up to `per_opcode` encodings per opcode
    that round-trip on their own, laid out consecutively; forward and reversed order."""
    t0 = time.time()
    ARCH, decode, OPCODES, OPC, ASM, TOK, ILF = _setup()
    arch = ARCH.SC62015()
    pre = unit.get("pre")
    per = unit.get("per_opcode", 4)
    picks = []
    for opcode in range(256):
        if opcode in PRE_BYTES:
            continue
        got = 0
        seen = set()
        tries = 0
        for b in candidates(pre, opcode, OPC, False)[::37]:
            if got >= per or tries >= 3 * per:
                break
            info = arch.get_instruction_info(b, 0x1000)
            if info is None:
                continue
            enc = bytes(b[:info.length])
            key = enc[:len(enc) - 0] if len(enc) <= 2 else enc[:2 + (1 if pre is not None else 0)]
            if key in seen:
                continue
            seen.add(key)
            tries += 1
            if check_encoding(enc, 0x1000, (decode, OPCODES, ASM, TOK, ILF))["fail"] is None:
                picks.append(enc)
                got += 1
    obs = []

    def run(order, tag):
        addr = 0x1000
        lines, want = [], b""
        for enc in order:
            ins = decode(enc, addr, OPCODES)
            text = text_for_assembler(ins.render(), TOK)
            try:
                ob = bytes(ASM.Assembler().assemble(f".ORG 0x{addr:X}\n{text}\n").as_binary())
            except Exception:  # noqa: BLE001
                continue            # not assemblable at this address on its own (address-dependent text): not part of the listing
            if len(ob) != len(enc):
                continue
            lines.append((addr, text, ob))
            want += ob
            addr += len(ob)
        src = ".ORG 0x1000\n" + "\n".join(t for _, t, _ in lines) + "\n"
        try:
            got = bytes(ASM.Assembler().assemble(src).as_binary())
            err = None
        except Exception as e:  # noqa: BLE001
            got, err = None, f"{type(e).__name__}: {str(e)[:200]}"
        ok = got == want
        detail = None
        if not ok:
            if err:
                detail = f"{tag}: the listing of {len(lines)} lines is rejected: {err}"
            else:
                pos = next((i for i in range(min(len(got), len(want))) if got[i] != want[i]), min(len(got), len(want)))
                a = 0x1000 + pos
                ln = next(((ad, t, ob) for ad, t, ob in lines if ad <= a < ad + len(ob)), lines[-1])
                k = lines.index(ln)
                detail = (f"{tag}: line {k} '{ln[1]}' at {ln[0]:#x} assembles to {got[ln[0]-0x1000:ln[0]-0x1000+len(ln[2])].hex()} inside the listing, "
                          f"{ln[2].hex()} on its own; previous line '{lines[k-1][1] if k else ''}'")
        o = dict(name=f"listing:{tag}:same-bytes-as-line-by-line", status="proved" if ok else "failed", backend="enumeration",
                 model=None if ok else dict(listing=src, want=want.hex()), detail=detail)
        obs.append(o)
        return len(lines)

    n1 = run(picks, "forward")
    n2 = run(list(reversed(picks)), "reversed")
    failed = [o for o in obs if o["status"] == "failed"]
    return dict(unit=unit, status="ok", error=None, kinds={"lines": n1 + n2}, obligations=len(obs), proved=len(obs) - len(failed),
                failed=failed, nfailed=len(failed), unknown=0, undecided_notes=[], stats=dict(paths=n1 + n2, queries=0, solver_s=0.0),
                by_backend={"enumeration": len(obs) - len(failed)}, wall_s=round(time.time() - t0, 2))


def replay_listing(body):
    model = body.get("model") or {}
    if "listing" not in model:
        return 4, "no listing recorded"
    ARCH, decode, OPCODES, OPC, ASM, TOK, ILF = _setup()
    try:
        got = bytes(ASM.Assembler().assemble(model["listing"]).as_binary())
    except Exception as e:  # noqa: BLE001
        return 1, f"the listing is rejected natively: {type(e).__name__}: {str(e)[:200]}"
    if got.hex() != model["want"]:
        return 1, "one Assembler given the whole listing produces other bytes than the lines one by one: " + str(body.get("detail"))[:400]
    return 0, "the listing assembles to the line-by-line bytes natively"


def unit_any(unit):
    return unit_listing(unit) if unit.get("fn") == "unit_listing" else globals()["unit"](unit)
