"""C08: contracts on Registers.get/set(+by_name, flags) and the CPU register snapshot."""
from __future__ import annotations

import time

import z3

from symx import core, astpass
from symx.core import T, W, SymInt
from spec import regfile as RF


def _emu():
    from sc62015.pysc62015 import emulator as EMU
    return EMU


def _fresh_regs(eng, EMU):
    regs = EMU.Registers()
    view = {}
    for b, m in RF.BASE_MASK.items():
        v = eng.fresh(b, m.bit_length())
        regs._values[EMU.RegisterName[b]] = v
        view[b] = T(v)
    return regs, view


def _report(run, unit, t0, status="ok", err=None, kinds=None):
    obs = run.obligations
    by = {}
    for o in obs:
        if o.status == "proved":
            by[o.backend] = by.get(o.backend, 0) + 1
    return dict(unit=unit, status=status, error=err, kinds=kinds or {}, obligations=len(obs),
                proved=sum(o.status == "proved" for o in obs),
                failed=core.failed_sample(obs, 10),
                nfailed=sum(o.status == "failed" for o in obs), unknown=sum(o.status == "unknown" for o in obs),
                undecided_notes=run.undecided[:5], stats=run.stats.as_dict(), by_backend=by,
                wall_s=round(time.time() - t0, 2))


def _explore(fn, unit):
    t0 = time.time()
    run = core.Run(max_paths=4000, wall_s=300)
    status, err = "ok", None
    try:
        core.explore(fn, run=run)
    except core.Undecided as e:
        status, err = "undecided", str(e)
    except core.EngineError as e:
        status, err = "engine-error", str(e)
    kinds = {}
    for _, r in run.results:
        kinds[r] = kinds.get(r, 0) + 1
    return _report(run, unit, t0, status, err, kinds)


def unit_set_get(unit):
    """One register name r: set(r, v) for an arbitrary 64-bit v on an arbitrary valid file,
    then get of every register; via the enum API, the by-name API and the flag API."""
    from symx import env
    env.setup()
    EMU = _emu()
    r = unit["reg"]
    api = unit.get("api", "enum")

    def body(eng):
        regs, view = _fresh_regs(eng, EMU)
        v = eng.fresh("v", 64)
        lvl = regs.call_sub_level
        keys0 = set(regs._values)
        if api == "enum":
            regs.set(EMU.RegisterName[r], v)
        elif api == "name":
            regs.set_by_name(r, v)
        else:
            regs.set_flag({"FC": "C", "FZ": "Z"}[r], v)
        want = RF.set_(view, r, T(v))
        for b in RF.BASE_MASK:
            eng.prove(f"set:{r}:store:{b}", T(regs._values[EMU.RegisterName[b]]) == want[b],
                      detail=f"Registers.set({r}, v) effect on {b}")
        eng.prove(f"set:{r}:invariant", RF.invariant({b: T(regs._values[EMU.RegisterName[b]]) for b in RF.BASE_MASK}),
                  detail="stored values stay within their architectural width")
        eng.prove(f"set:{r}:frame", z3.BoolVal(regs.call_sub_level == lvl and set(regs._values) == keys0),
                  detail="call bookkeeping and key set unchanged")
        snap = dict(regs._values)
        for q in RF.ALL:
            if api == "enum":
                got = regs.get(EMU.RegisterName[q])
            elif api == "name":
                got = regs.get_by_name(q)
            else:
                if q not in ("FC", "FZ"):
                    continue
                got = regs.get_flag({"FC": "C", "FZ": "Z"}[q])
            eng.prove(f"get:{q}:after-set:{r}", T(got) == RF.get(want, q), detail=f"get({q}) after set({r}, v)")
        same = all(regs._values[k] is snap[k] for k in snap) and set(regs._values) == set(snap)
        eng.prove("get:pure", z3.BoolVal(same), detail="get changes nothing")
        return "checked"

    return _explore(body, unit)


def unit_unknown(unit):
    from symx import env
    env.setup()
    EMU = _emu()

    def body(eng):
        regs, view = _fresh_regs(eng, EMU)
        for bad in ("IMR", "PS", "TEMP14", 5):
            for call in ("get", "set"):
                try:
                    if call == "get":
                        regs.get(bad)
                    else:
                        regs.set(bad, 1)
                    ok = False
                except ValueError:
                    ok = True
                except core.EngineSignal:
                    raise
                except BaseException:  # noqa: BLE001
                    ok = False
                eng.prove(f"unknown:{call}:{bad}", z3.BoolVal(ok), detail="unknown register names raise ValueError")
        for b in RF.BASE_MASK:
            eng.prove(f"unknown:frame:{b}", T(regs._values[EMU.RegisterName[b]]) == view[b])
        return "checked"

    return _explore(body, unit)


def unit_law(unit):
    """Lemma over the specification alone: the masked-word formulation used in the contracts
    equals the README byte/bit layout formulation, for every (written, read) register pair.
    With O-set/O-get this gives the algebraic law for all write sequences by induction on the
    last write."""
    t0 = time.time()
    run = core.Run()
    r1 = unit["reg"]

    def body(eng):
        cells = {}
        view = {}
        for b, m in RF.BASE_MASK.items():
            n = 1 if b == "F" else (2 if b in ("BA", "I") else 3)
            bs = [T(eng.fresh(f"{b}_{k}", 8)) for k in range(n)]
            if m == 0xFFFFF:
                eng.add(z3.ULE(bs[2], z3.BitVecVal(0x0F, W)))
            cells[b] = bs
            word = z3.BitVecVal(0, W)
            for k, x in enumerate(bs):
                word = word | (x << (8 * k))
            view[b] = word
        v = T(eng.fresh("v", 64))
        v1 = RF.set_(view, r1, v)
        c1 = RF.layout_set(cells, r1, v)
        for r2 in RF.ALL:
            eng.prove(f"law:{r1}->{r2}", RF.get(v1, r2) == RF.layout_get(c1, r2),
                      detail=f"read {r2} after write {r1}")
        # and the reading the property statement spells out
        for r2 in RF.ALL:
            if r2 == r1:
                w = RF.BASE_MASK.get(r1) or RF.SUB[r1][2]
                eng.prove(f"law:last-write:{r1}", RF.get(v1, r2) == (v & w), detail="returns the value written, truncated")
            elif not _overlap(r1, r2):
                eng.prove(f"law:frame:{r1}->{r2}", RF.get(v1, r2) == RF.get(view, r2), detail="non-overlapping register unchanged")
        return "checked"

    core.explore(body, run=run)
    return _report(run, unit, t0, kinds={"checked": 1})


def _base_of(r):
    return r if r in RF.BASE_MASK else RF.SUB[r][0]


def _overlap(r1, r2):
    if _base_of(r1) != _base_of(r2):
        return False
    if r1 == "IL" and r2 == "IH":
        return True            # IL write clears IH
    if r1 in RF.BASE_MASK or r2 in RF.BASE_MASK:
        return True
    return RF.SUB[r1][1] == RF.SUB[r2][1]


def unit_snapshot(unit):
    """CPURegistersSnapshot.from_registers -> apply_to(fresh Registers) reproduces every readable
    value; to_dict reports the captured values.  TEMP<k> symbolic, the other temps concrete."""
    from symx import env
    env.setup(extra=["sc62015.pysc62015.stepper"])
    EMU = _emu()
    from sc62015.pysc62015 import stepper as ST
    k = unit["temp"]

    def body(eng):
        regs = EMU.Registers()
        view = {}
        for b, m in RF.BASE_MASK.items():
            if b.startswith("TEMP") and b != f"TEMP{k}":
                val = (0x111111 * (int(b[4:]) % 3))
                regs._values[EMU.RegisterName[b]] = val
                view[b] = z3.BitVecVal(val, W)
            else:
                v = eng.fresh(b, m.bit_length())
                regs._values[EMU.RegisterName[b]] = v
                view[b] = T(v)
        regs.call_sub_level = 3
        snap = ST.CPURegistersSnapshot.from_registers(regs)
        fresh = EMU.Registers()
        snap.apply_to(fresh)
        for q in RF.ALL:
            eng.prove(f"snapshot:roundtrip:{q}", T(fresh.get(EMU.RegisterName[q])) == RF.get(view, q),
                      detail=f"{q} after from_registers/apply_to")
        eng.prove("snapshot:call_sub_level", z3.BoolVal(fresh.call_sub_level == 3))
        d = snap.to_dict()
        for name, b in (("pc", "PC"), ("ba", "BA"), ("i", "I"), ("x", "X"), ("y", "Y"), ("u", "U"), ("s", "S"), ("f", "F")):
            eng.prove(f"snapshot:to_dict:{name}", T(d[name]) == view[b])
        for b in RF.BASE_MASK:
            if b.startswith("TEMP"):
                got = d.get(b, 0)
                eng.prove(f"snapshot:to_dict:{b}", T(got) == view[b], detail="absent key means 0")
        return "checked"

    return _explore(body, unit)


def unit_snapshot_history(unit):
    """A snapshot is a function of the register file's CURRENT values: capture once, write register r
    (every name, through set / set_by_name / the flag API) with an arbitrary value, capture again - the
    second snapshot applied to a fresh file reproduces every readable value of the written file, and
    to_dict reports them.  (Guards captures that are cached or built incrementally.)"""
    from symx import env
    env.setup(extra=["sc62015.pysc62015.stepper"])
    EMU = _emu()
    from sc62015.pysc62015 import stepper as ST
    r, api = unit["reg"], unit["api"]

    def body(eng):
        regs = EMU.Registers()
        view = {}
        for b, m in RF.BASE_MASK.items():
            if b.startswith("TEMP"):
                val = 0x111111 * (int(b[4:]) % 3)
                regs._values[EMU.RegisterName[b]] = val
                view[b] = z3.BitVecVal(val, W)
            else:
                v0 = eng.fresh(b, m.bit_length())
                regs._values[EMU.RegisterName[b]] = v0
                view[b] = T(v0)
        first = ST.CPURegistersSnapshot.from_registers(regs)
        first.to_dict()
        v = eng.fresh("v", 32)
        if api == "enum":
            regs.set(EMU.RegisterName[r], v)
        elif api == "name":
            regs.set_by_name(r, v)
        else:
            regs.set_flag(r[1], v)
        view2 = RF.set_(view, r, T(v))
        snap = ST.CPURegistersSnapshot.from_registers(regs)
        fresh = EMU.Registers()
        snap.apply_to(fresh)
        for q in RF.ALL:
            if q.startswith("TEMP"):
                continue
            eng.prove(f"snapshot-after-write:{r}:roundtrip:{q}", T(fresh.get(EMU.RegisterName[q])) == RF.get(view2, q),
                      detail=f"capture, write {r}, capture again, apply to a fresh file: {q}")
        d = snap.to_dict()
        for name, b in (("pc", "PC"), ("ba", "BA"), ("i", "I"), ("x", "X"), ("y", "Y"), ("u", "U"), ("s", "S"), ("f", "F")):
            eng.prove(f"snapshot-after-write:{r}:to_dict:{name}", T(d[name]) == view2[b])
        return "checked"

    return _explore(body, unit)


def unit_blob(unit):
    """pce500.emulator._pack_register_bytes / _unpack_register_bytes: inverse on in-range values,
    18 bytes, little endian, layout PC,BA,I,X,Y,U,S,F."""
    from symx import env
    env.setup(extra=["sc62015.pysc62015.stepper", "pce500.emulator"])
    from sc62015.pysc62015 import stepper as ST
    import pce500.emulator as PE

    def body(eng):
        vals = {}
        for name, bits in (("pc", 20), ("ba", 16), ("i", 16), ("x", 20), ("y", 20), ("u", 20), ("s", 20), ("f", 8)):
            vals[name] = eng.fresh(name, bits)
        snap = ST.CPURegistersSnapshot(**vals)
        # b"".join(...) is re-derived from the real source with the BytesJoin pass (nothing dropped)
        pack = astpass.rebuild(PE._pack_register_bytes, [astpass.BytesJoin()])
        blob = pack(snap)
        want_layout = [("pc", 3), ("ba", 2), ("i", 2), ("x", 3), ("y", 3), ("u", 3), ("s", 3), ("f", 1)]
        # (the property text says "18-byte"; the layout it lists sums to 20 in both languages)
        eng.prove("blob:length", z3.BoolVal(len(blob) == sum(w for _, w in want_layout)))
        pos = 0
        items = list(blob.items) if hasattr(blob, "items") and not isinstance(blob, (bytes, bytearray)) else list(blob)
        for name, w in want_layout:
            for j in range(w):
                eng.prove(f"blob:byte:{name}:{j}", T(items[pos + j]) == ((T(vals[name]) >> (8 * j)) & 0xFF),
                          detail="little-endian layout PC,BA,I,X,Y,U,S,F")
            pos += w
        back = PE._unpack_register_bytes(blob)
        for name in vals:
            eng.prove(f"blob:roundtrip:{name}", T(back[name]) == T(vals[name]))
        return "checked"

    return _explore(body, unit)
