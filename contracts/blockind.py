"""Counted (block) instructions for ALL iteration counts: loop rule at IL level.

The real Emulator._execute_instruction_impl interprets the lifted IL; the IL node list is wrapped
so that the first arrival at the loop-head label (the label that is the target of a backward
edge) can be observed.  One run per path yields three groups of obligations:

  init : at the first arrival the loop state is the documented initial state: the two cursors (found
         among the TEMP registers by value, not by number) hold the first element addresses, I is the
         count n, nothing has been written, C is the incoming carry.
  step : the loop state is then havoced — every TEMP register, I, F and the auto-modified pointer
         register become fresh symbols constrained only by the linear invariant
             I = n - j,  0 <= j < n,  cursor_role = first_role + dir_role * j,  R = R_first + dirR * j
         over a ghost iteration index j; memory is arbitrary anyway.  One execution of the real loop body
         must then (a) change memory exactly as one documented element step at the element addresses
         of index j, (b) produce the documented carry and OR-accumulate the result into the zero
         accumulator, (c) re-establish the invariant for j+1 when it continues, and (d) continue iff
         j+1 < n.
  exit : on the path that leaves the loop, I = 0, the pointer register has its documented final value,
         Z reflects the accumulator (arithmetic/shift forms), every other architectural register is
         untouched.

By induction on j the instruction equals "init; n element steps; exit" — the README's "Loop I times"
— for every n >= 1, with no bound on I."""
from __future__ import annotations

import time

import z3

from symx import core
from symx.containers import SymMem
from symx.core import SymInt, T, W
from spec import isa
from contracts import cpu as CPU

INTERNAL = isa.INTERNAL
M20 = 0xFFFFF


class _Ctx:
    def __init__(self):
        self.on_head = None
        self.heads = None


CTX = _Ctx()


def _install_hook(EMU):
    if getattr(EMU, "_symx_il_hook", False):
        return
    from binja_test_mocks import mock_llil as ML
    Base = EMU.MockLowLevelILFunction

    class HookList(list):
        def __getitem__(self, idx):
            node = list.__getitem__(self, idx)
            if CTX.on_head is not None and isinstance(node, ML.MockLabel) and isinstance(idx, int):
                if CTX.heads is None:
                    CTX.heads = _loop_heads(self, ML)
                    CTX.loop_temps = _temps_used_in_loop(self, ML)
                if idx in CTX.heads:
                    CTX.on_head(idx)
            return node

    class HookedILF(Base):
        def __init__(self, *a, **k):
            super().__init__(*a, **k)
            self.ils = HookList(self.ils)

    EMU.MockLowLevelILFunction = HookedILF
    EMU._symx_il_hook = True


def _temps_used_in_loop(nodes, ML):
    """Indices of TEMP registers mentioned by the IL between a loop head and its back edge."""
    items = list(list.__iter__(nodes))
    heads = _loop_heads(nodes, ML)
    if not heads:
        return set()
    lo = min(heads)
    pos = {id(n.label): i for i, n in enumerate(items) if isinstance(n, ML.MockLabel)}
    hi = lo
    for i, n in enumerate(items):
        tg = [n.t, n.f] if isinstance(n, ML.MockIfExpr) else ([n.label] if isinstance(n, ML.MockGoto) else [])
        if any(pos.get(id(t)) in heads and pos.get(id(t)) <= i for t in tg):
            hi = max(hi, i)
    used = set()

    def walk(x):
        if isinstance(x, ML.MockReg):
            if x.name.startswith("TEMP"):
                used.add(int(x.name[4:]))
        elif hasattr(x, "ops"):
            for y in x.ops:
                walk(y)
            if hasattr(x, "cond"):
                walk(x.cond)
    for n in items[lo:hi + 1]:
        walk(n)
    return used


def _loop_heads(nodes, ML):
    pos = {}
    for i, n in enumerate(list.__iter__(nodes)):
        if isinstance(n, ML.MockLabel):
            pos[id(n.label)] = i
    heads = set()
    for i, n in enumerate(list.__iter__(nodes)):
        tg = []
        if isinstance(n, ML.MockIfExpr):
            tg = [n.t, n.f]
        elif isinstance(n, ML.MockGoto):
            tg = [n.label]
        for t in tg:
            p = pos.get(id(t))
            if p is not None and p <= i:
                heads.add(p)
    return heads


class _Stop(core.Cut):
    pass


# ----------------------------------------------------------------------------- documented element sequences
def _at(r, j):
    """Address of element j of a memory operand: internal cursors are 8-bit cell numbers and count
    modulo 256 (isa.IMEM_CURSOR_WRAPS), external cursors are plain pointers."""
    a = r["e0"] + r["dir"] * j
    if r["kind"] == "i" and isa.IMEM_CURSOR_WRAPS:
        return isa.bv(INTERNAL) + ((a - INTERNAL) & 0xFF)
    return a


def roles_of(mn, ops, st0):
    """For every memory operand: (first element address term, direction, auto-modified register or None).
    st0 = specification state at instruction start (registers, initial memory)."""
    back = mn in ("MVLD", "DADL", "DSBL", "DSLL")
    out = []
    pre_src = any(isinstance(o, isa.OEMem) and o.mode == "predec" for o in ops[1:2])
    for idx, o in enumerate(ops):
        if isinstance(o, isa.OReg):
            out.append(None)
            continue
        d = -1 if back else 1
        reg = None
        if isinstance(o, isa.OIMem):
            e0 = o.addr(st0)
            kind = "i"
        else:
            kind = "e"
            if o.mode == "abs":
                e0 = o.base
            elif o.mode == "reg":
                e0 = st0.get(o.reg)
            elif o.mode == "postinc":
                e0, reg = st0.get(o.reg), o.reg
            elif o.mode == "predec":
                e0, reg, d = st0.get(o.reg) - 1, o.reg, -1
            elif o.mode == "regoff":
                e0 = st0.get(o.reg) + o.off if o.sign == "+" else st0.get(o.reg) - o.off
            elif o.mode == "ind":
                pa = o.base.addr(st0)
                st0.need(pa + 2 <= INTERNAL + 0xFF)
                p = st0.rd(pa, 3, log=False)
                e0 = p + o.off if o.sign == "+" else (p - o.off if o.sign == "-" else p)
            else:
                raise isa.SpecError(o.mode)
        out.append(dict(e0=e0, dir=d, reg=reg, kind=kind, operand=o))
    return out


def run_path(eng, pre, opcode, known=(), skeleton=False):
    EMU, OPC, asm_str = CPU._mods()
    _install_hook(EMU)
    RN = EMU.RegisterName
    sm = SymMem("mem", eng)
    addr = 0x1000
    code = ([pre] if pre is not None else []) + [opcode]
    for i, b in enumerate(code):
        sm.preload(addr + i, b)
    emu = EMU.Emulator(EMU.Memory(sm.read, sm.write), reset_on_init=False)
    init = {}
    for r in CPU.REGS:
        init[r] = eng.fresh(r, CPU.REG_BITS[r])
        emu.regs._values[RN[r]] = init[r]
    n0 = init["I"]
    eng.assume(T(n0) >= 1)
    for i in range(EMU.NUM_TEMP_REGISTERS):
        emu.regs._values[RN[f"TEMP{i}"]] = eng.fresh(f"TEMP{i}", 24)
    emu.regs._values[RN.PC] = eng.fresh("PC0", 20)
    try:
        instr = emu.decode_instruction(addr)
    except core.EngineSignal:
        raise
    except BaseException:  # noqa: BLE001
        return "rejected"
    if isinstance(instr, EMU._FallbackInstruction) or type(instr).__name__ in ("PRE", "UnknownInstruction"):
        return "rejected"
    text = asm_str(instr.render())
    length = instr.length()
    ph = {k: (T(x), spec) for k, (x, spec) in eng.placeholders.items()}
    mn, ops = isa.Parser(text, ph, CPU.imem_names()).parse()
    st0 = isa.State({k: T(v) for k, v in init.items()} | {"PC": isa.bv(0)}, sm.init)
    roles = roles_of(mn, ops, st0)
    mem_roles = [r for r in roles if r]
    # definedness over the whole run: every element address stays inside its space
    n = T(n0)
    for r in mem_roles:
        last = r["e0"] + r["dir"] * (n - 1)
        lo, hi = (INTERNAL, INTERNAL + 0xFF) if r["kind"] == "i" else (0, M20)
        if r["kind"] == "i" and isa.IMEM_CURSOR_WRAPS:
            # an internal cursor is an 8-bit cell number: (m++) counts modulo 256, no bound on the run
            st0.need(z3.And(r["e0"] >= lo, r["e0"] <= hi))
        else:
            st0.need(z3.And(r["e0"] >= lo, r["e0"] <= hi, last >= lo, last <= hi))
    if mn in ("DADL", "DSBL"):
        pass
    # skeleton mode: the control skeleton of the loop (count decrements by one per element, the loop goes round again iff
    # the count is not yet zero, final count 0) for EVERY count 1..0xFFFF - stated without the definedness conditions,
    # which bound the count through the 256-byte internal space; memory/flag obligations are left to the full mode
    SKELETON = {"init:count-unchanged", "step:count-decrements", "step:continues-only-if-elements-remain",
                "step:exits-only-after-the-last-element", "exit:I==0", "no-exception", "loop-head-reached"}
    if not skeleton:
        try:
            eng.assume(z3.And(st0.defined)) if st0.defined else None
        except core.PathAbort:
            return "outside-domain"

    from props import common

    def P(name, cond, detail=None):
        if skeleton:
            if name not in SKELETON:
                return True
            name = "skeleton:" + name
        return common.prove_with_known(eng, name, core._b(cond), detail or text, known, text=text)

    state = {"visit": 0}
    regs_tracked = [r["reg"] for r in mem_roles if r["reg"]]

    def locate(term, what):
        # candidates: scratch registers the loop body mentions (read off the produced IL) whose
        # value at the loop head provably equals the documented address
        hits = [i for i in sorted(getattr(CTX, "loop_temps", None) or range(EMU.NUM_TEMP_REGISTERS))
                if not eng.feasible(T(emu.regs._values[RN[f"TEMP{i}"]]) != term)]
        return hits

    def on_head(idx):
        state["visit"] += 1
        if state["visit"] == 1:
            # ---------------- init obligations
            used = set()
            for ri, r in enumerate(mem_roles):
                hits = [h for h in locate(r["e0"], ri) if h not in used]
                P(f"init:cursor{ri}-holds-first-element-address", len(hits) >= 1,
                  f"{text}: no scratch register holds the documented first element address of operand {ri}")
                r["temp"] = hits[0] if hits else None
                used.add(r["temp"])
            state["srcT"] = None
            if mn in ("DADL", "DSBL") and roles[1] is None:
                # register source: the IL latches the register byte in a scratch register (used by the
                # first element only; the README does not say what later elements use)
                a0 = st0.get(ops[1].name) & 0xFF
                hits = [h for h in locate(a0, "src") if h not in used]
                P("init:source-register-byte-latched", len(hits) >= 1, f"{text}: no scratch register holds the source register byte")
                state["srcT"] = hits[0] if hits else None
                state["a0"] = a0
            P("init:count-unchanged", T(emu.regs.get(RN.I)) == n)
            P("init:nothing-written", len(sm.writes) == 0)
            if mn != "DADL" or True:
                P("init:carry-is-incoming-carry", (T(emu.regs.get(RN.F)) & 1) == (T(init["F"]) & 1),
                  f"{text}: the first element uses the carry the instruction was entered with")
            for r in ("BA", "X", "Y", "U", "S"):
                if r not in regs_tracked:
                    P(f"init:{r}-unchanged", T(emu.regs.get(RN[r])) == T(init[r]))
            state["R0"] = {r: T(emu.regs.get(RN[r])) for r in regs_tracked}
            if any(r.get("temp") is None for r in mem_roles) and not skeleton:
                raise _Stop()
            # ---------------- havoc + invariant
            j = eng.fresh("j", 16)
            state["j"] = j
            # scratch registers that the set-up left at zero are byte-sized accumulators / digit
            # carries: they stay within a byte (part of the invariant, re-proved when continuing)
            state["bytesized"] = [i for i in range(EMU.NUM_TEMP_REGISTERS)
                                  if not eng.feasible(T(emu.regs._values[RN[f"TEMP{i}"]]) != 0)]
            hv = {}
            for i in range(EMU.NUM_TEMP_REGISTERS):
                hv[i] = eng.fresh(f"hTEMP{i}", 8 if i in state["bytesized"] else 24)
                emu.regs._values[RN[f"TEMP{i}"]] = hv[i]
            ih = eng.fresh("hI", 16)
            fh = eng.fresh("hF", 8)
            emu.regs._values[RN.I] = ih
            emu.regs._values[RN.F] = fh
            inv = [T(j) >= 0, T(j) < n, T(ih) == n - T(j)]
            for r in mem_roles:
                if r.get("temp") is not None:
                    inv.append(T(hv[r["temp"]]) == _at(r, T(j)))
            for rg in regs_tracked:
                h = eng.fresh(f"h{rg}", 20)
                emu.regs._values[RN[rg]] = h
                d = [r["dir"] for r in mem_roles if r["reg"] == rg][0]
                inv.append(T(h) == state["R0"][rg] + d * T(j))
            if state["srcT"] is not None:
                inv.append(z3.Implies(T(j) == 0, T(hv[state["srcT"]]) == state["a0"]))
            eng.assume(z3.And(inv))
            state["hv"], state["ih"], state["fh"] = hv, ih, fh
            state["mem_head"] = sm.arr
            state["nwrites"] = len(sm.writes)
            state["nreads"] = len(sm.reads)
            sm.cache.clear()
            return
        # ---------------- second arrival: the loop continues
        _step_obligations(True)
        raise _Stop()

    def elem(ri):
        r = mem_roles[ri]
        return _at(r, T(state["j"]))

    def _step_obligations(continues):
        j = T(state["j"])
        memh = state["mem_head"]
        fh = T(state["fh"])
        c_in = fh & 1
        sel = lambda a: z3.ZeroExt(W - 8, z3.Select(memh, a))
        k = z3.BitVec("k!frame", W)
        eng.inputs.setdefault("k!frame", k)
        want_mem = memh
        want_c = None
        r_val = None
        if mn in ("MVL", "MVLD"):
            want_mem = z3.Store(memh, elem(0), z3.Extract(7, 0, sel(elem(1))))
        elif mn == "EXL":
            a, b = sel(elem(0)), sel(elem(1))
            want_mem = z3.Store(z3.Store(memh, elem(0), z3.Extract(7, 0, b)), elem(1), z3.Extract(7, 0, a))
        elif mn in ("ADCL", "SBCL", "DADL", "DSBL"):
            a = sel(elem(0))
            if roles[1]:
                b = sel(elem(1))
                src_ok = z3.BoolVal(True)
            else:
                b = st0.get(ops[1].name) & 0xFF
                # DADL/DSBL (n),A: the README does not say what the bytes after the first use
                src_ok = (j == 0) if mn in ("DADL", "DSBL") else z3.BoolVal(True)
            if mn in ("DADL", "DSBL"):
                if not skeleton:
                    eng.assume(z3.And(isa.bcd_valid(a), isa.bcd_valid(b)))
                r_val, want_c = isa.bcd_addsub(a, b, c_in, mn == "DSBL")
            elif mn == "SBCL":
                t = b + c_in
                r_val = (a - t) & 0xFF
                want_c = z3.If(z3.ULT(a, t), isa.bv(1), isa.bv(0))
            else:
                t = a + b + c_in
                r_val = t & 0xFF
                want_c = z3.If(z3.UGT(t, isa.bv(0xFF)), isa.bv(1), isa.bv(0))
            want_mem = z3.Store(memh, elem(0), z3.Extract(7, 0, r_val))
            P("step:memory", z3.Implies(src_ok, z3.Select(sm.arr, k) == z3.Select(want_mem, k)), f"{text}: element step j")
            P("step:writes-only-the-destination-element", z3.Implies(k != elem(0), z3.Select(sm.arr, k) == z3.Select(memh, k)), text)
            P("step:carry", z3.Implies(src_ok, (T(emu.regs.get(RN.F)) & 1) == want_c), f"{text}: carry out of element j")
            accs = [i for i in state["bytesized"]
                    if not eng.feasible(z3.And(src_ok, (T(emu.regs._values[RN[f"TEMP{i}"]]) & 0xFF) != ((T(state["hv"][i]) | r_val) & 0xFF)))]
            P("step:zero-accumulator", len(accs) >= 1, f"{text}: some scratch register accumulates acc | result")
            state["accs"] = accs
            state["r_val"] = r_val
            state["src_ok"] = src_ok
        elif mn in ("DSLL", "DSRL"):
            t = sel(elem(0))
            # the digit carried in is arbitrary loop state: find the scratch register that holds it
            cands = []
            for i in state["bytesized"]:
                cin = T(state["hv"][i]) & 0xF
                if mn == "DSLL":
                    r_ = ((t << 4) & 0xF0) | cin
                    nxt = z3.LShR(t, 4) & 0xF
                else:
                    r_ = (z3.LShR(t, 4) & 0xF) | (cin << 4)
                    nxt = t & 0xF
                wm = z3.Store(memh, elem(0), z3.Extract(7, 0, r_))
                # precondition of the role: the carried digit is a digit (< 16)
                pre = z3.ULE(T(state["hv"][i]), isa.bv(0xF))
                if not eng.feasible(z3.And(pre, z3.Select(sm.arr, k) != z3.Select(wm, k))):
                    cands.append((i, nxt, r_))
            P("step:memory", len(cands) >= 1, f"{text}: shifted byte = f(element, carried digit) for some scratch register holding the carried digit")
            if cands:
                i, nxt, r_ = cands[0]
                pre = z3.ULE(T(state["hv"][i]), isa.bv(0xF))
                P("step:carried-digit-is-from-the-original-byte", z3.Implies(pre, (T(emu.regs._values[RN[f"TEMP{i}"]]) & 0xFF) == nxt),
                  f"{text}: the digit handed to the next byte comes from the byte as it was before the shift")
                state["r_val"] = r_
                accs = [q for q in state["bytesized"] if q != i and
                        not eng.feasible(z3.And(pre, (T(emu.regs._values[RN[f"TEMP{q}"]]) & 0xFF) != ((T(state["hv"][q]) | r_) & 0xFF)))]
                P("step:zero-accumulator", len(accs) >= 1, text)
                state["accs"] = accs
            P("step:carry-flag-untouched", (T(emu.regs.get(RN.F)) & 1) == c_in)
        if mn in ("MVL", "MVLD", "EXL"):
            P("step:memory", z3.Select(sm.arr, k) == z3.Select(want_mem, k), f"{text}: element step j moves exactly one byte")
            P("step:flags-untouched", T(emu.regs.get(RN.F)) == fh)
        # reads of the body: only the element addresses
        allowed = [elem(i) for i in range(len(mem_roles))]
        for ra in sm.reads[state.get("nreads", 0):]:
            if z3.is_bv_value(z3.simplify(ra)) and addr <= z3.simplify(ra).as_long() < addr + length:
                continue
            if not any(ra.eq(x) for x in allowed):
                P("step:reads-only-element-addresses", z3.Or([ra == x for x in allowed]), text)
        # continue / exit decision and invariant
        i_now = T(emu.regs.get(RN.I))
        P("step:count-decrements", i_now == n - j - 1)
        if continues:
            P("step:continues-only-if-elements-remain", j + 1 < n)
            for ri, r in enumerate(mem_roles):
                if r.get("temp") is not None:
                    P(f"inv:cursor{ri}", T(emu.regs._values[RN[f"TEMP{r['temp']}"]]) == _at(r, j + 1))
            for rg in regs_tracked:
                d = [r["dir"] for r in mem_roles if r["reg"] == rg][0]
                P(f"inv:{rg}", T(emu.regs.get(RN[rg])) == state["R0"][rg] + d * (j + 1))
            for i in state["bytesized"]:
                P(f"inv:scratch{i}-byte-sized", z3.ULE(T(emu.regs._values[RN[f"TEMP{i}"]]), isa.bv(0xFF)))
        else:
            P("step:exits-only-after-the-last-element", j + 1 == n)

    CTX.on_head, CTX.heads = on_head, None
    state["nreads"] = 0
    try:
        try:
            emu.execute_instruction(addr)
        finally:
            CTX.on_head = None
    except _Stop:
        return "continues" if state["visit"] >= 2 else "init-failed"
    except core.EngineSignal:
        raise
    except BaseException as e:  # noqa: BLE001
        P("no-exception", False, f"{text}: {type(e).__name__}: {e}")
        return "exception"
    if state["visit"] == 0:
        P("loop-head-reached", False, f"{text}: no loop head was visited although I >= 1")
        return "no-loop"
    # ---------------- exit path
    _step_obligations(False)
    P("exit:I==0", T(emu.regs.get(RN.I)) == 0)
    for rg in regs_tracked:
        d = [r["dir"] for r in mem_roles if r["reg"] == rg][0]
        P(f"exit:{rg}-final", T(emu.regs.get(RN[rg])) == ((T(init[rg]) + d * n) & M20), f"{text}: {rg} moved by exactly n elements")
    for r in ("BA", "X", "Y", "U", "S"):
        if r not in regs_tracked:
            P(f"exit:{r}-unchanged", T(emu.regs.get(RN[r])) == T(init[r]))
    P("exit:PC", T(emu.regs.get(RN.PC)) == ((addr + length) & M20))
    if mn in ("ADCL", "SBCL", "DADL", "DSBL", "DSLL", "DSRL") and state.get("accs"):
        q = state["accs"][0]
        acc_after = (T(state["hv"][q]) | state["r_val"]) & 0xFF
        P("exit:Z-reflects-accumulated-result", z3.Implies(state.get("src_ok", z3.BoolVal(True)),
                                                          (z3.LShR(T(emu.regs.get(RN.F)), 1) & 1) == z3.If(acc_after == 0, isa.bv(1), isa.bv(0))),
          f"{text}: Z = (OR of all result bytes == 0)")
    return "exits"


def check_unit(pre, opcode, known=(), wall_s=900, skeleton=False):
    t0 = time.time()
    run = core.Run(max_paths=20000, wall_s=wall_s)
    status, err = "ok", None
    try:
        core.explore(lambda eng: run_path(eng, pre, opcode, known, skeleton), run=run)
    except core.Undecided as e:
        status, err = "undecided", str(e)
    except core.EngineError as e:
        status, err = "engine-error", str(e)
    except isa.SpecError as e:
        status, err = "undecided", f"spec grammar: {e}"
    finally:
        CTX.on_head = None
    kinds = {}
    for _, r in run.results:
        kinds[r] = kinds.get(r, 0) + 1
    obs = run.obligations
    by = {}
    for o in obs:
        if o.status == "proved":
            by[o.backend] = by.get(o.backend, 0) + 1
    return dict(unit=dict(pre=pre, opcode=opcode, induction=True, **({'skeleton': True} if skeleton else {})), status=status, error=err, kinds=kinds, obligations=len(obs),
                proved=sum(o.status == "proved" for o in obs),
                failed=core.failed_sample(obs, 14),
                nfailed=sum(o.status == "failed" for o in obs), unknown=sum(o.status == "unknown" for o in obs),
                undecided_notes=run.undecided[:5], stats=run.stats.as_dict(), by_backend=by, wall_s=round(time.time() - t0, 2),
                allow_empty=bool(kinds) and set(kinds) <= {"rejected", "outside-domain"})


def unit_entry(unit):
    from symx import env
    env.setup()
    return check_unit(unit.get("pre"), unit["opcode"], known=unit.get("known", ()), wall_s=unit.get("wall_s", 900), skeleton=bool(unit.get("skeleton")))


def unit_dispatch(unit):
    if unit.get("induction"):
        return unit_entry(unit)
    return CPU.unit_entry(unit)


def unit_large_count(unit):
    """Bounded companion: one counted opcode executed natively and whole with a LARGE count in a fresh plain
    interpreter (contracts/block_large.py); laws: ends with I = 0 without error, pointer register moved by
    I elements, number of byte stores = elements.  Catches anything that ends a long run early from outside
    the IL (the loop rule cuts the real interpreter loop after one round)."""
    import json
    import os
    import subprocess
    import sys
    import time as _t
    t0 = _t.time()
    repo = os.environ.get("VERIF_REPO", "/repo")
    here = os.path.dirname(os.path.abspath(__file__))
    cases = [[unit["key"], c] for c in unit["counts"]]
    env = dict(os.environ, PYTHONPATH=repo, FORCE_BINJA_MOCK="1")
    env.pop("SYMX_FIX_INPUTS", None)
    p = subprocess.run([sys.executable, os.path.join(here, "block_large.py"), json.dumps(cases)], capture_output=True, text=True, timeout=unit.get("timeout", 500), env=env)
    if p.returncode != 0:
        return dict(unit=unit, status="checker-error", error="large-count companion failed: " + (p.stderr or p.stdout)[-600:], obligations=0, proved=0,
                    failed=[], nfailed=0, unknown=0, stats={}, wall_s=round(_t.time() - t0, 2))
    res = json.loads(p.stdout.strip().splitlines()[-1])
    failed = [dict(name=f"large-count:completes-with-I=0:{r['code']}", model=dict(key=r["key"], count=r["count"]), backend="evaluation",
                   detail=f"{r['code']} with I={r['count']:#x}: " + "; ".join(r["problems"])) for r in res if r["problems"]]
    return dict(unit=unit, status="ok", error=None, kinds={"native-run": len(res)}, obligations=len(res), proved=len(res) - len(failed), failed=failed, nfailed=len(failed),
                unknown=0, undecided_notes=[], stats=dict(paths=len(res), queries=0, solver_s=0.0), by_backend={"evaluation": len(res) - len(failed)},
                wall_s=round(_t.time() - t0, 2), bounded=True)
