"""C12 (the decidable clauses): delivery gate and frame of PCE500Emulator.step, HALT wake-up.

One real step() on a real PCE500Emulator (constructor and all); the CPU core call
cpu.execute_instruction is cut by a stub that records the state at the moment the next
instruction would execute (its own contract is C04).  IMR, ISR, the pending flag, F and S are
symbolic; a ROM image supplies a concrete interrupt vector (without a ROM the vector bytes alias
TXD/IMR/ISR, see the C11 finding)."""
from __future__ import annotations

import time

import z3

from symx import core
from symx.containers import ArrBuf
from symx.core import T, W, SymInt, SymBool

IMR_OFF, ISR_OFF = 0xFB, 0xFC
VECTOR = 0x02345


def _report(run, unit, t0, status="ok", err=None, kinds=None):
    obs = run.obligations
    by = {}
    for o in obs:
        if o.status == "proved":
            by[o.backend] = by.get(o.backend, 0) + 1
    return dict(unit=unit, status=status, error=err, kinds=kinds or {}, obligations=len(obs),
                proved=sum(o.status == "proved" for o in obs),
                failed=core.failed_sample(obs, 12),
                nfailed=sum(o.status == "failed" for o in obs), unknown=sum(o.status == "unknown" for o in obs),
                undecided_notes=run.undecided[:5], stats=run.stats.as_dict(), by_backend=by,
                wall_s=round(time.time() - t0, 2))


def _setup():
    from symx import env
    env.setup(extra=["pce500.memory", "pce500.memory_bus", "pce500.emulator", "pce500.keyboard_matrix", "pce500.keyboard_handler", "pce500.scheduler"])
    import pce500.emulator as PE
    from sc62015.pysc62015.emulator import RegisterName
    return PE, RegisterName


class _Info:
    class instruction:
        @staticmethod
        def length():
            return 1

        @staticmethod
        def render():
            return []

        @staticmethod
        def name():
            return "NOP"


def build(eng, PE, RN, in_interrupt=False, halted=False, s_region=(0xB9000, 0xBA000)):
    emu = PE.PCE500Emulator(save_lcd_on_exit=False)
    buf = ArrBuf("ext", 1024 * 1024)
    imr, isr = eng.fresh("IMR", 8), eng.fresh("ISR", 8)
    buf[0xFFF00 + IMR_OFF] = imr
    buf[0xFFF00 + ISR_OFF] = isr
    for i in range(8):
        buf[0x1000 + i] = 0
    emu.memory.external_memory = buf
    rom = bytearray(0x40000)
    rom[0x3FFFA:0x3FFFD] = bytes([VECTOR & 0xFF, (VECTOR >> 8) & 0xFF, (VECTOR >> 16) & 0xFF])
    emu.load_rom(bytes(rom))
    emu.memory._card_data = ArrBuf("card", 65536)
    emu.cpu.regs.set(RN.PC, 0x1000)
    S = eng.fresh("S", 20)
    eng.assume(z3.And(T(S) >= s_region[0], T(S) <= s_region[1]))
    emu.cpu.regs.set(RN.S, S)
    F = eng.fresh("F", 8)
    emu.cpu.regs.set(RN.F, F)
    pend = eng.fresh_bool("pending")
    emu._irq_pending = pend
    emu._in_interrupt = in_interrupt
    emu._key_irq_latched = False
    emu._timer_enabled = False
    emu.cpu.state.halted = halted
    seen = []

    def stub_exec(pc):
        seen.append(dict(pc=pc, s=emu.cpu.regs.get(RN.S), mem=buf.arr))
        return _Info()

    emu.cpu.execute_instruction = stub_exec
    emu.cpu.decode_instruction = lambda pc: _Info.instruction
    return emu, dict(buf=buf, imr=imr, isr=isr, S=S, F=F, pend=pend, seen=seen, mem0=buf.arr)


def unit_gate(unit):
    PE, RN = _setup()
    t0 = time.time()
    known = unit.get("known", ())
    in_irq = unit.get("in_interrupt", False)
    run = core.Run(max_paths=3000, wall_s=500)

    def body(eng):
        emu, st = build(eng, PE, RN, in_interrupt=in_irq)
        emu.step()
        buf, imr, isr, S, F = st["buf"], st["imr"], st["isr"], st["S"], st["F"]
        pend = core._b(st["pend"])
        at = st["seen"][0] if st["seen"] else None
        s_at = T(at["s"]) if at else T(emu.cpu.regs.get(RN.S))
        pc_at = T(at["pc"]) if at else T(emu.cpu.regs.get(RN.PC))
        mem_at = at["mem"] if at else buf.arr
        delivered = s_at == T(S) - 5
        gate = z3.And(pend, z3.BoolVal(not in_irq), (T(imr) & 0x80) != 0, (T(imr) & T(isr) & 0x7F) != 0)

        def P(name, cond, detail=None):
            from props import common
            return common.prove_with_known(eng, name, cond, detail, known)

        P("gate:delivered=>enabled-and-pending", z3.Implies(delivered, gate),
          "an interrupt is taken only if pending, master enable set, and a source is both unmasked and pending")
        P("gate:enabled-and-pending=>delivered", z3.Implies(gate, delivered), "a deliverable request is taken at this step boundary (not lost, not postponed)")
        P("gate:either-5-bytes-or-nothing", z3.Or(delivered, s_at == T(S)))
        sel = lambda m, a: z3.ZeroExt(W - 8, z3.Select(m, a))
        P("deliver:frame-is-PC-F-IMR", z3.Implies(delivered, z3.And(
            sel(mem_at, T(S) - 3) == 0x00, sel(mem_at, T(S) - 2) == 0x10, sel(mem_at, T(S) - 1) == 0x00,
            sel(mem_at, T(S) - 4) == T(F), sel(mem_at, T(S) - 5) == T(imr))), "PC (3 bytes, low first) above F above IMR")
        P("deliver:clears-master-enable", z3.Implies(delivered, sel(mem_at, z3.BitVecVal(0xFFF00 + IMR_OFF, W)) == (T(imr) & 0x7F)))
        P("deliver:continues-at-vector", z3.Implies(delivered, pc_at == VECTOR))
        k = z3.BitVec("k!frame", W)
        eng.inputs.setdefault("k!frame", k)
        P("deliver:nothing-else-written", z3.Implies(z3.And(delivered, z3.Or(k < T(S) - 5, k >= T(S)), k != 0xFFF00 + IMR_OFF),
                                                      z3.Select(mem_at, k) == z3.Select(st["mem0"], k)))
        P("no-delivery:nothing-written", z3.Implies(z3.Not(delivered), z3.Select(mem_at, k) == z3.Select(st["mem0"], k)))
        P("no-delivery:pc-unchanged", z3.Implies(z3.Not(delivered), pc_at == 0x1000))
        fl_in = bool(emu._in_interrupt) if not core.is_sym(emu._in_interrupt) else None
        if fl_in is not None:
            P("deliver:in-interrupt-flag", z3.Implies(delivered, z3.BoolVal(fl_in is True)))
        P("deliver:pending-cleared", z3.Implies(delivered, z3.Not(core._b(emu._irq_pending))))
        P("no-delivery:pending-kept", z3.Implies(z3.And(z3.Not(delivered), pend), core._b(emu._irq_pending)), "a masked request is not lost")
        P("executes-exactly-one-instruction", z3.BoolVal(len(st["seen"]) == 1))
        return "step"

    status, err = "ok", None
    try:
        core.explore(body, run=run)
    except core.Undecided as e:
        status, err = "undecided", str(e)
    except core.EngineError as e:
        status, err = "engine-error", str(e)
    return _report(run, unit, t0, status, err, {"paths": len(run.results)})


def unit_halt(unit):
    """A halted CPU executes nothing and resumes exactly when a status bit is pending."""
    PE, RN = _setup()
    t0 = time.time()
    run = core.Run(max_paths=3000, wall_s=500)

    def body(eng):
        emu, st = build(eng, PE, RN, halted=True)
        c0 = emu.cycle_count
        emu.step()
        isr = st["isr"]
        woke = not emu.cpu.state.halted
        P = lambda n, c, d=None: eng.prove(n, c, detail=d)
        P("halt:wakes-iff-status-pending", z3.BoolVal(woke) == (T(isr) != 0), "resumes exactly when ISR != 0 (not on a stale pending flag)")
        if not woke:
            P("halt:executes-nothing", z3.BoolVal(len(st["seen"]) == 0))
            k = z3.BitVec("k!frame", W)
            P("halt:writes-nothing", z3.Select(st["buf"].arr, k) == z3.Select(st["mem0"], k))
            P("halt:registers-unchanged", z3.And(T(emu.cpu.regs.get(RN.S)) == T(st["S"]), T(emu.cpu.regs.get(RN.PC)) == 0x1000))
            P("halt:time-passes", z3.BoolVal(emu.cycle_count == c0 + 1))
        return "woke" if woke else "halted"

    status, err = "ok", None
    try:
        core.explore(body, run=run)
    except core.Undecided as e:
        status, err = "undecided", str(e)
    except core.EngineError as e:
        status, err = "engine-error", str(e)
    kinds = {}
    for _, r in run.results:
        kinds[r] = kinds.get(r, 0) + 1
    return _report(run, unit, t0, status, err, kinds)


def unit_reti(unit):
    """End of a handler: the step that executes RETI (cut by its contract) leaves the handler state and
    does not lose a request that became pending while the handler ran."""
    PE, RN = _setup()
    t0 = time.time()
    run = core.Run(max_paths=3000, wall_s=500)

    class _RetiInfo:
        class RETI:
            @staticmethod
            def length():
                return 1

            @staticmethod
            def render():
                return []

            @staticmethod
            def name():
                return "RETI"
        instruction = RETI()

    def body(eng):
        emu, st = build(eng, PE, RN, in_interrupt=True)
        pend = core._b(st["pend"])

        def stub_exec(pc):
            st["seen"].append(dict(pc=pc, s=emu.cpu.regs.get(RN.S), mem=st["buf"].arr))
            return _RetiInfo()
        emu.cpu.execute_instruction = stub_exec
        emu.cpu.decode_instruction = lambda pc: _RetiInfo.instruction
        emu.step()
        P = lambda n, c, d=None: eng.prove(n, c, detail=d)
        P("reti:executes-the-instruction", z3.BoolVal(len(st["seen"]) == 1))
        P("reti:leaves-handler-state", z3.BoolVal(emu._in_interrupt is False), "after RETI the emulator is no longer inside a handler")
        P("reti:pending-request-kept", z3.Implies(pend, core._b(emu._irq_pending)),
          "a request that became pending while the handler ran is still pending after RETI (not lost)")
        P("reti:no-delivery-in-the-same-step", T(emu.cpu.regs.get(RN.S)) == T(st["S"]), "delivery happens at the next step boundary, nothing is pushed by this step")
        return "reti"

    status, err = "ok", None
    try:
        core.explore(body, run=run)
    except core.Undecided as e:
        status, err = "undecided", str(e)
    except core.EngineError as e:
        status, err = "engine-error", str(e)
    return _report(run, unit, t0, status, err, {"paths": len(run.results)})


def unit_off(unit):
    """'A powered-off CPU additionally stops both timers': the real OFF (or, for contrast, HALT)
    instruction is executed by one real step(), the timer targets are then made arbitrary, and one
    more real step() runs at an arbitrary later cycle.  After OFF neither timer may fire or move its
    target and no status bit may appear; after HALT the timers keep running (C13 decides how)."""
    PE, RN = _setup()
    t0 = time.time()
    op = unit["op"]
    run = core.Run(max_paths=3000, wall_s=500)

    def body(eng):
        emu = PE.PCE500Emulator(save_lcd_on_exit=False)
        rom = bytearray(0x40000)
        rom[0x3FFFA:0x3FFFD] = bytes([VECTOR & 0xFF, (VECTOR >> 8) & 0xFF, (VECTOR >> 16) & 0xFF])
        emu.load_rom(bytes(rom))
        emu.memory.write_byte(0xB8000, {"OFF": 0xDF, "HALT": 0xDE}[op])
        emu.cpu.regs.set(RN.PC, 0xB8000)
        emu.cpu.regs.set(RN.S, 0xBF000)
        emu._timer_enabled = True
        emu._scheduler.enabled = True
        emu.step()
        eng.prove("off:instruction-stops-the-cpu", z3.BoolVal(bool(emu.cpu.state.halted)))
        isr_addr = 0x100000 + ISR_OFF
        emu.memory.write_byte(isr_addr, 0)
        emu._irq_pending = False
        # bounded ranges (the scheduler's catch-up loops would otherwise iterate symbolically; C13 proves them
        # for all values): concrete periods and cycle, both targets arbitrary within a window around it
        mp, sp, cyc = 5, 7, 100
        nm, ns = eng.fresh("next_mti", 8), eng.fresh("next_sti", 8)
        eng.assume(z3.And(T(nm) >= 98, T(nm) <= 104, T(ns) >= 98, T(ns) <= 104))
        sch = emu._scheduler
        sch.mti_period, sch.sti_period = mp, sp
        sch._next_mti, sch._next_sti = nm, ns
        emu.cycle_count = cyc
        emu.step()
        isr = emu.memory.read_byte(isr_addr)
        if op == "OFF":
            eng.prove("off:no-status-bit-from-timers", T(isr) & 3 == 0, "a powered-off CPU stops both timers: no MTI/STI status bit appears")
            eng.prove("off:timer-targets-frozen", z3.And(T(sch.next_mti) == T(nm), T(sch.next_sti) == T(ns)), "neither timer advances while the CPU is off")
            eng.prove("off:stays-off", z3.BoolVal(bool(emu.cpu.state.halted)), "no timer can wake a powered-off CPU")
        else:
            eng.prove("halt:timers-keep-running", z3.Implies(z3.Or(T(nm) <= 100, T(ns) <= 100), T(isr) & 3 != 0),
                      "contrast case: a halted (not powered-off) CPU is woken by its timers")
        return op

    status, err = "ok", None
    try:
        core.explore(body, run=run)
    except core.Undecided as e:
        status, err = "undecided", str(e)
    except core.EngineError as e:
        status, err = "engine-error", str(e)
    return _report(run, unit, t0, status, err, {"paths": len(run.results)})


def unit_any(unit):
    return globals()[unit["fn"]](unit)
