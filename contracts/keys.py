"""C14: keyboard matrix contracts (pce500/keyboard_matrix.py) and KEYI gating in _tick_timers."""
from __future__ import annotations

import time

import z3

from symx import core
from symx.core import T, W, SymInt, SymBool

SAMPLE_KEYS = ("KEY_A", "KEY_ENTER", "KEY_F1", "KEY_Q")


def _report(run, unit, t0, status="ok", err=None, kinds=None):
    obs = run.obligations
    by = {}
    for o in obs:
        if o.status == "proved":
            by[o.backend] = by.get(o.backend, 0) + 1
    return dict(unit=unit, status=status, error=err, kinds=kinds or {}, obligations=len(obs),
                proved=sum(o.status == "proved" for o in obs),
                failed=core.failed_sample(obs, 12),
                nfailed=sum(o.status == "failed" for o in obs), unknown=sum(o.status == "unknown" for o in obs),
                undecided_notes=run.undecided[:5], stats=run.stats.as_dict(), by_backend=by,
                wall_s=round(time.time() - t0, 2))


def _explore(body, unit, **kw):
    t0 = time.time()
    run = core.Run(max_paths=kw.get("max_paths", 20000), wall_s=kw.get("wall_s", 500))
    status, err = "ok", None
    try:
        core.explore(body, run=run)
    except core.Undecided as e:
        status, err = "undecided", str(e)
    except core.EngineError as e:
        status, err = "engine-error", str(e)
    kinds = {}
    for _, r in run.results:
        kinds[str(r)] = kinds.get(str(r), 0) + 1
    return _report(run, unit, t0, status, err, kinds)


def _setup():
    from symx import env
    env.setup(extra=["pce500.keyboard_matrix"])
    import pce500.keyboard_matrix as KM
    return KM


def _b(x):
    return core._b(x)


def _sym_key(eng, st, tag=""):
    """Arbitrary key state inside the representation invariant."""
    f = dict(pressed=eng.fresh_bool("pressed" + tag), debounced=eng.fresh_bool("debounced" + tag),
             press=eng.fresh_int("press_ticks" + tag), rel=eng.fresh_int("release_ticks" + tag), rep=eng.fresh_int("repeat_ticks" + tag))
    st.pressed, st.debounced = f["pressed"], f["debounced"]
    st.press_ticks, st.release_ticks, st.repeat_ticks = f["press"], f["rel"], f["rep"]
    return f


def TI(x):
    """Mathematical-integer term of a counter value (plain ints become IntVal)."""
    if isinstance(x, bool):
        x = int(x)
    if isinstance(x, int):
        return z3.IntVal(x)
    t = T(x)
    return t if z3.is_int(t) else z3.BV2Int(t, True)


def key_invariant(f, thr_p, thr_r):
    """not debounced => 0 <= press_ticks < press_threshold and release_ticks = 0;
       debounced => 0 <= release_ticks < release_threshold;  repeat_ticks >= 0."""
    d = _b(f["debounced"])
    return z3.And(z3.Implies(z3.Not(d), z3.And(TI(f["press"]) >= 0, TI(f["press"]) < TI(thr_p), TI(f["rel"]) == 0)),
                  z3.Implies(d, z3.And(TI(f["rel"]) >= 0, TI(f["rel"]) < TI(thr_r))),
                  TI(f["rep"]) >= 0)


def unit_automaton(unit):
    """_update_key_state for one key: every state inside the invariant, every threshold setting,
    strobed or not."""
    KM = _setup()
    strobed = unit["strobed"]

    def body(eng):
        kb = KM.KeyboardMatrix()
        tp, tr, rd, ri = (eng.fresh_int(n) for n in ("press_threshold", "release_threshold", "repeat_delay", "repeat_interval"))
        eng.assume(z3.And(TI(tp) >= 1, TI(tr) >= 1, TI(rd) >= 0, TI(ri) >= 0))
        kb.press_threshold, kb.release_threshold, kb.repeat_delay, kb.repeat_interval = tp, tr, rd, ri
        st = kb._key_states["KEY_A"]
        f = _sym_key(eng, st)
        eng.assume(key_invariant(f, tp, tr))
        col = st.location.column
        events = kb._update_key_state(st, {col} if strobed else {col + 1})
        P = lambda n, c, d=None: eng.prove(n, _b(c), detail=d)
        d0, d1 = _b(f["debounced"]), _b(st.debounced)
        p = _b(f["pressed"])
        held = z3.And(p, z3.BoolVal(strobed))
        presses = [e for e in events if not e.release and not e.repeat]
        releases = [e for e in events if e.release]
        repeats = [e for e in events if e.repeat]
        P("events:at-most-one", len(events) <= 1)
        P("press-event<=>debounced-rises", SymBool(z3.And(z3.Not(d0), d1) == z3.BoolVal(len(presses) == 1)))
        P("release-event<=>debounced-falls", SymBool(z3.And(d0, z3.Not(d1)) == z3.BoolVal(len(releases) == 1)))
        P("repeat=>held-and-debounced", SymBool(z3.Implies(z3.BoolVal(len(repeats) == 1), z3.And(d0, d1, held))))
        P("event-code", all(e.code == st.matrix_code for e in events))
        # debounce: shown exactly when the key has been held (pressed on a strobed column) for the interval
        P("rises-iff-held-for-debounce-interval",
          SymBool(z3.Implies(z3.Not(d0), d1 == z3.And(held, TI(f["press"]) + 1 >= TI(tp)))))
        P("press-run-counts-held-ticks", SymBool(z3.Implies(z3.And(z3.Not(d0), z3.Not(d1)),
                                                            TI(st.press_ticks) == z3.If(held, TI(f["press"]) + 1, 0))))
        # release: hidden only after release_threshold consecutive ticks without (pressed and strobed)
        P("falls-iff-unheld-for-release-interval",
          SymBool(z3.Implies(d0, z3.Not(d1) == z3.And(z3.Not(held), TI(f["rel"]) + 1 >= TI(tr)))))
        P("release-run-counts-unheld-ticks", SymBool(z3.Implies(z3.And(d0, d1), TI(st.release_ticks) == z3.If(held, 0, TI(f["rel"]) + 1))))
        # repeat cadence while held and debounced
        cad = z3.And(d0, held, TI(ri) > 0)
        rt = z3.If(TI(f["rep"]) > 0, TI(f["rep"]) - 1, TI(f["rep"]))
        P("repeat-cadence", SymBool(z3.Implies(cad, z3.And(z3.BoolVal(len(repeats) == 1) == (rt <= 0),
                                                            TI(st.repeat_ticks) == z3.If(rt <= 0, TI(ri), rt)))))
        P("repeat-armed-on-press", SymBool(z3.Implies(z3.And(z3.Not(d0), d1), TI(st.repeat_ticks) == TI(rd))))
        P("no-repeat-when-interval-zero", SymBool(z3.Implies(TI(ri) <= 0, z3.BoolVal(len(repeats) == 0))))
        P("physical-state-untouched", SymBool(_b(st.pressed) == p))
        g = dict(pressed=st.pressed, debounced=st.debounced, press=st.press_ticks, rel=st.release_ticks, rep=st.repeat_ticks)
        P("invariant-preserved", SymBool(key_invariant(g, tp, tr)))
        return "ev:" + ",".join(("rel" if e.release else "rep" if e.repeat else "press") for e in events)

    return _explore(body, unit)


def unit_key_ops(unit):
    """press_key / release_key / inject_event / release_all_keys on an arbitrary key state."""
    KM = _setup()
    op = unit["op"]

    def body(eng):
        kb = KM.KeyboardMatrix()
        tp, tr, rd = (eng.fresh_int(n) for n in ("press_threshold", "release_threshold", "repeat_delay"))
        eng.assume(z3.And(TI(tp) >= 1, TI(tr) >= 1, TI(rd) >= 0))
        kb.press_threshold, kb.release_threshold, kb.repeat_delay = tp, tr, rd
        st = kb._key_states["KEY_A"]
        other = kb._key_states["KEY_B"]
        f = _sym_key(eng, st)
        fo = _sym_key(eng, other, "_other")
        eng.assume(z3.And(key_invariant(f, tp, tr), key_invariant(fo, tp, tr)))
        P = lambda n, c, d=None: eng.prove(n, _b(c), detail=d)
        d0, p0 = _b(f["debounced"]), _b(f["pressed"])
        if op == "press":
            r = kb.press_key("KEY_A")
            P("press:already-pressed-is-noop", SymBool(z3.Implies(p0, z3.And(z3.BoolVal(r is False), TI(st.press_ticks) == TI(f["press"]),
                                                                                TI(st.release_ticks) == TI(f["rel"]), TI(st.repeat_ticks) == TI(f["rep"])))))
            P("press:sets-pressed", SymBool(_b(st.pressed)))
            P("press:keeps-debounced", SymBool(_b(st.debounced) == d0), "a re-press inside the release interval must not hide the key (no second press event without a release)")
            P("press:restarts-counters", SymBool(z3.Implies(z3.Not(p0), z3.And(TI(st.press_ticks) == 0, TI(st.release_ticks) == 0, TI(st.repeat_ticks) == TI(rd)))))
        elif op == "release":
            kb.release_key("KEY_A")
            P("release:clears-pressed", SymBool(z3.Not(_b(st.pressed))))
            P("release:keeps-debounced", SymBool(_b(st.debounced) == d0), "still shown until the release interval has passed")
            P("release:restarts-release-run", TI(st.release_ticks) == 0)
        elif op == "inject-press":
            kb.inject_event("KEY_A", release=False)
            P("inject:press-state", SymBool(z3.And(_b(st.pressed), _b(st.debounced), TI(st.release_ticks) == 0, TI(st.repeat_ticks) == TI(rd))))
            P("inject:queued", kb.fifo_snapshot() == [st.matrix_code & 0x7F])
        elif op == "inject-release":
            kb.inject_event("KEY_A", release=True)
            P("inject:release-state", SymBool(z3.And(z3.Not(_b(st.pressed)), z3.Not(_b(st.debounced)), TI(st.press_ticks) == 0, TI(st.release_ticks) == 0)))
            P("inject:queued", kb.fifo_snapshot() == [(st.matrix_code & 0x7F) | 0x80])
        else:
            kb.release_all_keys()
            P("release-all:state", SymBool(z3.And(z3.Not(_b(st.pressed)), z3.Not(_b(st.debounced)), TI(st.press_ticks) == 0, TI(st.release_ticks) == 0, TI(st.repeat_ticks) == 0)))
        g = dict(pressed=st.pressed, debounced=st.debounced, press=st.press_ticks, rel=st.release_ticks, rep=st.repeat_ticks)
        P("invariant-established", SymBool(key_invariant(g, tp, tr)))
        if op != "release-all":
            P("other-key-untouched", SymBool(z3.And(_b(other.pressed) == _b(fo["pressed"]), _b(other.debounced) == _b(fo["debounced"]),
                                                    TI(other.press_ticks) == TI(fo["press"]), TI(other.release_ticks) == TI(fo["rel"]), TI(other.repeat_ticks) == TI(fo["rep"]))))
        return op

    return _explore(body, unit)


def unit_fifo(unit):
    """_enqueue_event / pop_fifo / fifo_snapshot against the abstract queue (a sequence)."""
    KM = _setup()
    head, tail = unit["head"], unit["tail"]

    def body(eng):
        kb = KM.KeyboardMatrix()
        cells = [eng.fresh(f"q{i}", 8) for i in range(KM.FIFO_SIZE)]
        kb._fifo = list(cells)
        kb._head, kb._tail = head, tail
        view = []
        i = head
        while i != tail:
            view.append(cells[i])
            i = (i + 1) % KM.FIFO_SIZE
        cap = KM.FIFO_SIZE - 1
        P = lambda n, c, d=None: eng.prove(n, _b(c), detail=d)
        snap = kb.fifo_snapshot()
        P("snapshot=view", len(snap) == len(view) and all(bool(_eq(a, b)) for a, b in zip(snap, view)))
        code = eng.fresh("code", 8)
        rel = unit.get("release", False)
        rep = unit.get("repeat", False)
        evt = KM.MatrixEvent(code=code, release=rel, repeat=rep)
        kb._enqueue_event(evt)
        byte = (code & 0x7F) | (0x80 if rel else 0)
        want = (view if len(view) < cap else view[1:]) + [byte]
        got = kb.fifo_snapshot()
        P("enqueue:appends-and-drops-only-oldest", len(got) == len(want) and all(bool(_eq(a, b)) for a, b in zip(got, want)),
          "view' = (view, or view without its oldest entry when full) + [event byte] whatever kind of event")
        P("enqueue:capacity", len(got) <= cap)
        v = kb.pop_fifo()
        P("pop:returns-oldest", v is not None and bool(_eq(v, want[0])))
        rest = kb.fifo_snapshot()
        P("pop:removes-oldest", len(rest) == len(want) - 1 and all(bool(_eq(a, b)) for a, b in zip(rest, want[1:])))
        while kb.pop_fifo() is not None:
            pass
        P("pop:empty-gives-none", kb.pop_fifo() is None and kb.fifo_snapshot() == [])
        return f"h{head}t{tail}"

    return _explore(body, unit)


def _eq(a, b):
    r = (a == b)
    if isinstance(r, SymBool):
        return z3.is_true(z3.simplify(r.b)) or not core.current().feasible(z3.Not(r.b))
    return bool(r)


def unit_kil(unit):
    """_active_columns / _compute_kil / read_kil for all KOL/KOH values (KOL high nibble fixed per work
    unit), both polarities, with up to three keys in arbitrary states and every other key idle."""
    KM = _setup()
    hi = unit["kol_hi"]
    high = unit["active_high"]
    keys = unit["keys"]

    def body(eng):
        kb = KM.KeyboardMatrix(columns_active_high=high)
        lo = eng.fresh("kol_lo", 4)
        koh = eng.fresh("koh", 4)
        kb.kol = (hi << 4) | lo
        kb.koh = koh
        fs = {}
        for k in keys:
            st = kb._key_states[k]
            st.debounced = eng.fresh_bool("deb_" + k)
            st.pressed = eng.fresh_bool("prs_" + k)
            fs[k] = st
        val = kb.read_kil()
        cols = kb.get_active_columns()
        bits = T(kb.kol) | (T(kb.koh) << 8)
        P = lambda n, c, d=None: eng.prove(n, _b(c), detail=d)
        for c in range(16):
            act = ((z3.LShR(bits, c) & 1) == (1 if high else 0))
            P(f"active-columns:{c}", SymBool(act == z3.BoolVal(c in cols)))
        for r in range(8):
            conds = []
            for k in keys:
                loc = fs[k].location
                if loc.row == r:
                    conds.append(z3.And(_b(fs[k].debounced), z3.BoolVal(loc.column in cols)))
            want = z3.Or(conds) if conds else z3.BoolVal(False)
            P(f"kil:row{r}", SymBool(((T(val) >> r) & 1 == 1) == want),
              "row bit r <=> some debounced key of row r sits on a strobed column")
        P("kil:byte", SymBool(z3.And(T(val) >= 0, T(val) <= 0xFF)))
        return "kil"

    return _explore(body, unit, max_paths=30000, wall_s=800)


class MemberList:
    """Result of `_active_columns()` as given by its contract (unit_active_columns): the ascending list of
    exactly those columns c whose membership term holds.  Membership of a concrete column is a symbolic
    truth value (the engine forks on it); iteration realises the list column by column."""

    def __init__(self, member):
        self.member = dict(member)

    def __contains__(self, c):
        if core.is_sym(c):
            raise core.Unsupported("symbolic column looked up in the active-column set")
        t = self.member.get(c)
        return False if t is None else bool(SymBool(t))

    def __iter__(self):
        for c in sorted(self.member):
            if bool(SymBool(self.member[c])):
                yield c


def _set_shim(x=()):
    """`set(...)` inside pce500.keyboard_matrix: identity on a MemberList (a set of the same members),
    the builtin otherwise."""
    return x if isinstance(x, MemberList) else set(x)


def _act_terms(kol, koh, high):
    bits = T(kol) | (T(koh) << 8)
    return {c: ((z3.LShR(bits, c) & 1) == (1 if high else 0)) for c in range(16)}


def unit_active_columns(unit):
    """Contract of `_active_columns` (and get_active_columns): the ascending list of the columns whose
    KOL/KOH bit is at the active level.  KOL high nibble is the work unit (all 16 are run: a complete
    case split), the other 8 bits are symbolic; KOH < 16 is the register invariant (established by
    __init__/write_koh/load_state, proved in unit_koh_invariant)."""
    KM = _setup()
    hi, high = unit["kol_hi"], unit["active_high"]

    def body(eng):
        kb = KM.KeyboardMatrix(columns_active_high=high)
        lo = eng.fresh("kol_lo", 4)
        koh = eng.fresh("koh", 4)
        kb.kol = (hi << 4) | lo
        kb.koh = koh
        cols = list(kb._active_columns())
        act = _act_terms(kb.kol, kb.koh, high)
        P = lambda n, c, d=None: eng.prove(n, _b(c), detail=d)
        for c in range(16):
            P(f"active-columns:{c}", SymBool(act[c] == z3.BoolVal(c in cols)), "column c listed <=> its strobe bit is at the active level")
        P("active-columns:ascending-no-duplicates", all(a < b for a, b in zip(cols, cols[1:])))
        P("active-columns:range", all(0 <= c < 16 for c in cols))
        P("get_active_columns:same", kb.get_active_columns() == cols)
        return "cols"

    return _explore(body, unit)


def unit_koh_invariant(unit):
    """KOL is a byte and KOH a nibble after the constructor, write_kol/write_koh with any value, and
    load_state with any stored value (the precondition of unit_active_columns / unit_kil_all)."""
    KM = _setup()
    high = unit["active_high"]

    def body(eng):
        kb = KM.KeyboardMatrix(columns_active_high=high)
        P = lambda n, c, d=None: eng.prove(n, _b(c), detail=d)
        P("init:kol-byte", 0 <= kb.kol <= 0xFF)
        P("init:koh-nibble", 0 <= kb.koh <= 0x0F)
        v = eng.fresh("v", 32)
        kb._compute_kil = lambda **kw: 0     # the latch refresh is covered by unit_kil_all
        # frame: a strobe-register write changes no key's debounce state and queues nothing (every key arbitrary)
        fs = {name: _sym_key(eng, st, "_" + name) for name, st in kb._key_states.items()}
        fifo0 = (list(kb._fifo), kb._head, kb._tail)

        def keys_untouched(tag):
            same = []
            for name, st in kb._key_states.items():
                f = fs[name]
                same.append(z3.And(_b(st.pressed) == _b(f["pressed"]), _b(st.debounced) == _b(f["debounced"]), TI(st.press_ticks) == TI(f["press"]),
                                   TI(st.release_ticks) == TI(f["rel"]), TI(st.repeat_ticks) == TI(f["rep"])))
            P(f"{tag}:keys-untouched", SymBool(z3.And(same)), "a strobe-register write must not touch any key's debounce automaton (all 87 keys arbitrary)")
            P(f"{tag}:queue-untouched", (list(kb._fifo), kb._head, kb._tail) == fifo0)
        kb.write_kol(v)
        P("write_kol:byte", SymBool(T(kb.kol) == (T(v) & 0xFF)))
        keys_untouched("write_kol")
        kb.write_koh(v)
        P("write_koh:nibble", SymBool(T(kb.koh) == (T(v) & 0x0F)))
        keys_untouched("write_koh")
        snap = KM.KeyboardMatrix(columns_active_high=high).snapshot_state()
        snap["kol"], snap["koh"] = eng.fresh("skol", 32), eng.fresh("skoh", 32)
        kb.load_state(snap)
        P("load_state:kol-byte", SymBool(T(kb.kol) == (T(snap["kol"]) & 0xFF)))
        P("load_state:koh-nibble", SymBool(T(kb.koh) == (T(snap["koh"]) & 0x0F)))
        return "inv"

    return _explore(body, unit)


def unit_kil_all(unit):
    """_compute_kil / read_kil / peek_kil with EVERY key in an arbitrary state (all debounced/pressed flags
    and press counters symbolic), all KOL/KOH values, both polarities: the loop over the key table is
    verified by the for-each rule with the fold invariant
        value == OR_{j<k} (shown_j ? 1 << row_j : 0)
    and `_active_columns` is cut by its contract (unit_active_columns).  Post: row bit r <=> some key of
    row r on a strobed column is debounced (peek: or about to be)."""
    import types
    from symx import astpass
    KM = _setup()
    high, entry = unit["active_high"], unit["entry"]

    def body(eng):
        KM.set = _set_shim
        kb = KM.KeyboardMatrix(columns_active_high=high)
        kol, koh = eng.fresh("kol", 8), eng.fresh("koh", 4)
        kb.kol, kb.koh = kol, koh
        tp = eng.fresh_int("press_threshold")
        eng.assume(TI(tp) >= 1)
        kb.press_threshold = tp
        act = _act_terms(kol, koh, high)
        kb._active_columns = lambda: MemberList(act)
        fs = {}
        for name, st in kb._key_states.items():
            st.debounced, st.pressed = eng.fresh_bool("deb_" + name), eng.fresh_bool("prs_" + name)
            st.press_ticks = eng.fresh_int("pt_" + name)
            fs[id(st)] = (st.debounced, st.pressed, st.press_ticks)
        calls = []

        def shown(st, pending):
            d, p, pt = fs[id(st)]
            s = _b(d)
            if pending:
                s = z3.Or(s, z3.And(_b(p), TI(pt) + 1 >= TI(tp)))
            return z3.And(act[st.location.column], s)

        def fold(items, k, pending):
            v = z3.BitVecVal(0, W)
            for st in items[:k]:
                v = v | z3.If(shown(st, pending), z3.BitVecVal(1 << st.location.row, W), z3.BitVecVal(0, W))
            return v

        def inv(L, k, items):
            # row-wise form of  value == fold(items, k):  bit r of value <=> some shown key of row r among the first k
            v, pend = T(L["value"]), bool(L["allow_pending"])
            rows = []
            for r in range(8):
                rows.append(((z3.LShR(v, r) & 1) == 1) == z3.Or([shown(st, pend) for st in items[:k] if st.location.row == r] or [z3.BoolVal(False)]))
            return SymBool(z3.And(z3.LShR(v, 8) == 0, *rows))

        lo_k, hi_k = unit.get("positions", (0, 10 ** 6))
        spec = astpass.ForEachSpec(inv, havoc={"value": lambda fresh: eng.fresh(f"havoc_value!{len(calls)}", 32)},
                                   only=lambda k, n: lo_k <= k < hi_k or (k == n and hi_k >= n))
        fresh = lambda n: eng.fresh(n + f"!{len(calls)}", 32)
        new, ctx = astpass.rebuild_with_foreach(KM.KeyboardMatrix._compute_kil, {0: spec}, fresh, n_for=1)

        def compute(self, **kw):
            calls.append(kw)
            if kw in calls[:-1] or (entry == "peek_kil" and not kw.get("allow_pending")):
                # later calls with arguments already verified (here, or by the read_kil work unit): cut by the contract
                r = eng.fresh(f"kil_contract!{len(calls)}", 8)
                eng.assume(T(r) == (fold(list(self._key_states.values()), 10 ** 6, bool(kw.get("allow_pending"))) & 0xFF))
                return r
            return new(self, **kw)
        kb._compute_kil = types.MethodType(compute, kb)
        pending = entry == "peek_kil"
        val = kb.read_kil() if entry == "read_kil" else kb.peek_kil() if entry == "peek_kil" else kb._compute_kil()
        P = lambda n, c, d=None: eng.prove(n, _b(c), detail=d)
        states = list(kb._key_states.values())
        for r in range(8):
            want = z3.Or([shown(st, pending) for st in states if st.location.row == r] or [z3.BoolVal(False)])
            P(f"kil-all:row{r}", SymBool(((T(val) >> r) & 1 == 1) == want),
              "row bit r <=> some key of row r on a strobed column is debounced" + (" or about to be" if pending else ""))
        P("kil-all:byte", SymBool(z3.And(T(val) >= 0, T(val) <= 0xFF)))
        if entry != "_compute_kil":
            P("kil-all:latch", SymBool(T(kb._kil_latch) == T(val)) if entry == "read_kil" else True)
        P("kil-all:keys-untouched", all(st.debounced is fs[id(st)][0] and st.pressed is fs[id(st)][1] and st.press_ticks is fs[id(st)][2] for st in states))
        P("kil-all:strobes-untouched", kb.kol is kol and kb.koh is koh)
        return "kil-all"

    return _explore(body, unit, max_paths=30000, wall_s=800)


def unit_scan(unit):
    """scan_tick: every key is stepped by the automaton (one symbolic key, the others idle), the events
    are returned, queued in order and counted; disabled scanning does nothing."""
    KM = _setup()
    key = unit["key"]
    strobed = unit["strobed"]

    def body(eng):
        kb = KM.KeyboardMatrix()
        st = kb._key_states[key]
        f = _sym_key(eng, st)
        tp, tr = kb.press_threshold, kb.release_threshold
        eng.assume(key_invariant(f, tp, tr))
        col = st.location.column
        if strobed:
            if col < 8:
                kb.kol = 1 << col
            else:
                kb.koh = 1 << (col - 8)
        ref = KM.KeyboardMatrix()
        rst = ref._key_states[key]
        rst.pressed, rst.debounced, rst.press_ticks, rst.release_ticks, rst.repeat_ticks = f["pressed"], f["debounced"], f["press"], f["rel"], f["rep"]
        want = ref._update_key_state(rst, {col} if strobed else set())
        ev = kb.scan_tick()
        P = lambda n, c, d=None: eng.prove(n, _b(c), detail=d)
        P("scan:events-are-the-automaton's", [(e.code, e.release, e.repeat) for e in ev] == [(e.code, e.release, e.repeat) for e in want])
        P("scan:state-stepped", SymBool(z3.And(_b(st.debounced) == _b(rst.debounced), TI(st.press_ticks) == TI(rst.press_ticks),
                                                  TI(st.release_ticks) == TI(rst.release_ticks), TI(st.repeat_ticks) == TI(rst.repeat_ticks))),
          "a key is stepped on every tick whether or not its column is strobed")
        P("scan:queued-in-order", kb.fifo_snapshot() == [e.to_byte() for e in want])
        P("scan:irq-count", kb.irq_count == len(want))
        P("scan:others-idle", all((not s.pressed and not s.debounced) for k2, s in kb._key_states.items() if k2 != key))
        kil = kb._kil_latch
        P("scan:kil-latch", SymBool(((T(kil) >> st.location.row) & 1 == 1) == z3.And(_b(st.debounced), z3.BoolVal(strobed))))
        return "scan:" + str(len(ev))

    return _explore(body, unit)


def unit_scan_burst(unit):
    """scan_tick with n events produced in ONE tick (n up to beyond the queue capacity): the automaton
    step _update_key_state is cut by a stub that yields one event with a symbolic code / kind for each
    of the first n keys of the table.  All n events are returned in table order and counted, and the
    queue afterwards is its sequence view extended by all n event bytes with only the OLDEST entries
    dropped (never the newest), for the given head/tail and symbolic previous contents."""
    KM = _setup()
    n, head, tail = unit["n"], unit["head"], unit["tail"]

    def body(eng):
        kb = KM.KeyboardMatrix()
        cells = [eng.fresh(f"q{i}", 8) for i in range(KM.FIFO_SIZE)]
        for i, c in enumerate(cells):
            kb._fifo[i] = c
        kb._head, kb._tail = head, tail
        view = []
        i = head
        while i != tail:
            view.append(cells[i])
            i = (i + 1) % KM.FIFO_SIZE
        states = list(kb._key_states.values())
        made = {}

        def stub(state, active_cols):
            k = next(j for j, s_ in enumerate(states) if s_ is state)
            if k >= n:
                return []
            code = eng.fresh(f"code{k}", 7)
            rel = unit.get("release", False)
            ev = KM.MatrixEvent(code=code, release=rel, repeat=(k % 3 == 1) and not rel)
            made[k] = ev
            return [ev]
        kb._update_key_state = stub
        irq0 = kb.irq_count
        ev = kb.scan_tick()
        P = lambda nm, c, d=None: eng.prove(nm, _b(c), detail=d)
        P("burst:all-events-returned-in-order", len(ev) == n and all(e is made[k] for k, e in enumerate(ev)))
        P("burst:counted", kb.irq_count == irq0 + n)
        cap = KM.FIFO_SIZE - 1
        want = (view + [made[k].to_byte() for k in range(n)])[-cap:]
        snap = kb.fifo_snapshot()
        P("burst:queue-length", len(snap) == len(want), "capacity never exceeded, nothing dropped while there is room")
        if len(snap) == len(want):
            P("burst:queue-keeps-the-newest", SymBool(z3.And([T(a) == T(b) for a, b in zip(snap, want)] or [z3.BoolVal(True)])),
              "queue' = (queue + all events of the tick) with only the oldest entries dropped")
        return "burst:%d" % n

    return _explore(body, unit)


def unit_keyi(unit):
    """KEYI gating in PCE500Emulator._tick_timers: ISR bit 2 is raised iff the scan produced events
    and keyboard interrupts are enabled."""
    from symx import env
    env.setup(extra=["pce500.scheduler", "pce500.emulator"])
    import types
    import pce500.scheduler as SCH
    import pce500.emulator as PE
    from contracts import timers as TM
    n_events, enabled = unit["events"], unit["kb_irq"]
    ISR = 0x100000 + 0xFC

    def body(eng):
        fake, sm = TM._fake_emulator(eng, PE, SCH)
        evs = [object()] * n_events
        fake.keyboard.scan_tick = lambda: list(evs)
        fake._kb_irq_enabled = enabled
        fake._key_irq_latched = False
        fake._kb_irq_count = 0
        fake.cpu = types.SimpleNamespace(regs=types.SimpleNamespace(get=lambda r: 0))
        sch = SCH.TimerScheduler(5, 7)
        sch._next_mti, sch._next_sti = 10, 11
        fake._scheduler = sch
        fake.cycle_count = 10
        isr0 = sm.cell_int(ISR)
        fake._tick_timers()
        want = isr0 | 1 | (4 if (n_events and enabled) else 0)
        eng.prove("keyi:raised-iff-events-and-enabled", _b(SymInt(z3.ZeroExt(56, sm.now(ISR)), 0, 255) == want))
        eng.prove("keyi:latch", z3.BoolVal(bool(fake._key_irq_latched) == bool(n_events and enabled)))
        eng.prove("keyi:count", z3.BoolVal(fake._kb_irq_count == (n_events if enabled else 0)))
        return "keyi"

    return _explore(body, unit)
