"""C04 bounded companion (plain CPython, fresh interpreter): counted instructions with LARGE counts.

The IL-level loop rule proves one arbitrary iteration and the loop's control skeleton; it cuts the
real interpreter loop after one round, so anything that ends a long run early from OUTSIDE the IL (a
step budget, a watchdog) is invisible to it.  Here every counted opcode is executed natively, whole,
with I = 0xFFFF and I = 0x8000 on a real Emulator; laws from the README entries: the instruction ends
with I = 0, executes without error, an auto-modified pointer register has moved by exactly I elements,
and the number of store operations equals the number of elements (times two for the exchange).
Usage: python block_large.py '<json list of cases>'; prints one JSON document."""
import json
import os
import sys
import time

os.environ.setdefault("FORCE_BINJA_MOCK", "1")
from binja_test_mocks import binja_api  # noqa: F401,E402
from sc62015.pysc62015.emulator import Emulator, Memory, RegisterName as RN  # noqa: E402

# opcode -> (bytes after the opcode, pointer register affected or None, direction, stores per element)
CASES = {
    0xCB: ([0x10, 0x80], None, 0, 1),          # MVL (m),(n)
    0xCF: ([0x90, 0xF0], None, 0, 1),          # MVLD (m),(n)
    0xC3: ([0x10, 0x80], None, 0, 2),          # EXL (m),(n)
    0x54: ([0x10, 0x80], None, 0, 1),          # ADCL (m),(n)
    0x55: ([0x10], None, 0, 1),                # ADCL (n),A
    0x5C: ([0x10, 0x80], None, 0, 1),          # SBCL (m),(n)
    0x5D: ([0x10], None, 0, 1),                # SBCL (n),A
    0xC4: ([0x10, 0x80], None, 0, 1),          # DADL (m),(n)
    0xC5: ([0x10], None, 0, 1),                # DADL (n),A
    0xD4: ([0x10, 0x80], None, 0, 1),          # DSBL (m),(n)
    0xD5: ([0x10], None, 0, 1),                # DSBL (n),A
    0xEC: ([0x10], None, 0, 1),                # DSLL (n)
    0xFC: ([0x10], None, 0, 1),                # DSRL (n)
    0xD3: ([0x10, 0x00, 0x00, 0x04], None, 0, 1),   # MVL (k),[lmn]
    0xDB: ([0x00, 0x00, 0x04, 0x10], None, 0, 1),   # MVL [lmn],(n)
    0xE3: ([0x24, 0x10], "X", +1, 1),          # MVL (n),[X++]
    0xE3 + 0x1000: ([0x34, 0x10], "X", -1, 1),  # MVL (n),[--X]   (key offset only to keep both forms)
    0xEB: ([0x24, 0x10], "X", +1, 1),          # MVL [X++],(n)
    0xEB + 0x1000: ([0x34, 0x10], "X", -1, 1),  # MVL [--X],(n)
}


def run_case(key, count):
    tail, reg, direction, per = CASES[key]
    opcode = key & 0xFF
    mem = {}
    stores = [0]

    def wr(a, v):
        stores[0] += 1
        mem[a] = v & 0xFF
    code = [0x32, opcode] + tail if opcode not in (0xE3, 0xEB, 0xD3, 0xDB) else [opcode] + tail
    for i, b in enumerate(code):
        mem[0x1000 + i] = b
    e = Emulator(Memory(lambda a: mem.get(a, 0x11 if a >= 0x100000 else 0x22), wr), reset_on_init=False)
    e.regs.set(RN.I, count)
    x0 = 0x60000
    e.regs.set(RN.X, x0)
    e.regs.set(RN.F, 0)
    t0 = time.time()
    try:
        e.execute_instruction(0x1000)
        err = None
    except Exception as ex:  # noqa: BLE001
        err = f"{type(ex).__name__}: {ex}"
    probs = []
    if err:
        probs.append("raises " + err)
    else:
        if e.regs.get(RN.I) != 0:
            probs.append(f"I = {e.regs.get(RN.I):#x} after the instruction (README: loops I times, I ends at 0)")
        if reg is not None and e.regs.get(RN[reg]) != (x0 + direction * count) & 0xFFFFF:
            probs.append(f"{reg} = {e.regs.get(RN[reg]):#x}, expected {((x0 + direction * count) & 0xFFFFF):#x} ({count} elements)")
        if stores[0] != per * count:
            probs.append(f"{stores[0]} byte stores, expected {per * count}")
    return dict(key=key, opcode=opcode, count=count, problems=probs, seconds=round(time.time() - t0, 2), code=bytes(code).hex())


def replay(body):
    m = body.get("model") or {}
    if "key" not in m:
        return 4, "no case recorded"
    r = run_case(int(m["key"]), int(m["count"]))
    if r["problems"]:
        return 1, f"{r['code']} with I={r['count']:#x}: " + "; ".join(r["problems"])
    return 0, f"{r['code']} with I={r['count']:#x}: completes with I=0, pointer and store count as documented"


if __name__ == "__main__":
    cases = json.loads(sys.argv[1])
    print(json.dumps([run_case(int(k), int(c)) for k, c in cases]))
