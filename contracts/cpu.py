"""Contract harness for one instruction through the real decode -> render -> lift -> evaluate
path (Emulator.execute_instruction), compared with the text-driven reference semantics.

One *work unit* = (prefix byte or None, opcode byte[, concrete block count]).  Everything
else — operand bytes, all registers including the TEMP scratch registers, flags, the whole
memory — is symbolic."""
from __future__ import annotations

import os
import re
import time

import z3

from symx import core
from symx.containers import SymMem
from symx.core import SymBool, SymInt, T, W
from spec import isa

PRE_BYTES = (0x21, 0x22, 0x23, 0x24, 0x25, 0x26, 0x27, 0x30, 0x31, 0x32, 0x33, 0x34, 0x35, 0x36, 0x37)
BLOCK_OPS = {0x54, 0x55, 0x5C, 0x5D, 0x56, 0x5E, 0xC3, 0xC4, 0xC5, 0xD4, 0xD5, 0xCB, 0xCF, 0xD3, 0xDB,
             0xE3, 0xEB, 0xEC, 0xFC, 0xF3, 0xFB}
MAXLEN = 7
REGS = ("BA", "I", "X", "Y", "U", "S", "F")
REG_BITS = {"BA": 16, "I": 16, "X": 20, "Y": 20, "U": 20, "S": 20, "F": 8}


def _mods():
    from sc62015.pysc62015 import emulator as EMU
    from sc62015.pysc62015.instr import opcodes as OPC
    from binja_test_mocks.tokens import asm_str
    return EMU, OPC, asm_str


def imem_names():
    _, OPC, _ = _mods()
    return {m.name: int(m) for m in OPC.IMEMRegisters._real} if hasattr(OPC.IMEMRegisters, "_real") else \
        {m.name: int(m) for m in OPC.IMEMRegisters}


class PathOutcome:
    def __init__(self, kind, **kw):
        self.kind = kind
        self.__dict__.update(kw)


def run_path(eng, pre, opcode, block_n=None, addr=0x1000, sym_addr=False, known=(), branch_check=False):
    """Execute one path.  Returns PathOutcome; obligations go to eng.run.obligations."""
    EMU, OPC, asm_str = _mods()
    RN = EMU.RegisterName
    sm = SymMem("mem", eng)
    if sym_addr:
        a = eng.fresh("addr", 20)
        at = a
    else:
        a = addr
        at = addr
    code = ([pre] if pre is not None else []) + [opcode]
    for i, b in enumerate(code):
        if sym_addr:
            eng.add(z3.Select(sm.init, T(a + i)) == b)
        else:
            sm.preload(a + i, b)
    if sym_addr:
        # the instruction must lie inside the external address space
        eng.assume(a + (MAXLEN) <= 0xFFFFF)
    mem = EMU.Memory(sm.read, sm.write)
    emu = EMU.Emulator(mem, reset_on_init=False)
    init = {}
    for r in REGS:
        v = eng.fresh(r, REG_BITS[r])
        init[r] = v
        emu.regs._values[RN[r]] = v
    if block_n is not None:
        emu.regs._values[RN.I] = block_n
        init["I"] = block_n
    for i in range(EMU.NUM_TEMP_REGISTERS):
        emu.regs._values[RN[f"TEMP{i}"]] = eng.fresh(f"TEMP{i}", 24)
    emu.regs._values[RN.PC] = eng.fresh("PC0", 20)
    halted0 = emu.state.halted
    # ---- decode + render first: the text decides which documented semantics applies, and its
    # definedness conditions are assumed before execution (prunes undocumented corners early)
    try:
        instr = emu.decode_instruction(a)
    except core.EngineSignal:
        raise
    except BaseException as e:  # noqa: BLE001
        eng.prove("fetch-no-exception", z3.BoolVal(False), detail=f"{type(e).__name__}: {e}")
        return PathOutcome("exception", exc=type(e).__name__)
    if isinstance(instr, EMU._FallbackInstruction) or type(instr).__name__ == "PRE":
        return PathOutcome("rejected")
    if type(instr).__name__ == "UnknownInstruction":
        return PathOutcome("unimplemented", detail=instr.name())
    try:
        text = asm_str(instr.render())
    except core.EngineSignal:
        raise
    except BaseException as e:  # noqa: BLE001
        eng.prove("render-no-exception", z3.BoolVal(False), detail=f"{type(e).__name__}: {e}")
        return PathOutcome("exception", exc=type(e).__name__)
    length = instr.length()
    st = isa.State({k: T(v) if not isinstance(v, int) else isa.bv(v) for k, v in init.items()} | {"PC": isa.bv(0)},
                   sm.init)
    try:
        isa.execute(text, {k: (T(x), spec) for k, (x, spec) in eng.placeholders.items()}, imem_names(),
                    st, T(at), length, block_limit=block_n)
    except isa.NotSpecified as e:
        if branch_check:
            # C05 does not need the documented semantics: whatever the decoder accepts and the IL
            # does, the reported branch facts must agree with the PC reached
            try:
                ev = emu.execute_instruction(a)
            except core.EngineSignal:
                raise
            except BaseException as e2:  # noqa: BLE001
                eng.prove("no-exception", z3.BoolVal(False), detail=f"{text}: {type(e2).__name__}: {e2}")
                return PathOutcome("exception", exc=type(e2).__name__)

            class _NoSpec:
                defined, taken = [], None
            _branch_obligations(eng, ev, _NoSpec, T(at), length, T(emu.regs.get(RN.PC)), text, conditional=False, hook=(ev.instruction, a))
            return PathOutcome("branch-facts-only", text=text, detail=str(e))
        return PathOutcome("not-specified", text=text, detail=str(e))
    defined = z3.BoolVal(True)
    if st.defined and not branch_check:
        try:
            eng.assume(z3.And(st.defined))
        except core.PathAbort:
            return PathOutcome("outside-domain", text=text)
    elif st.defined:
        # C05 runs: the branch obligations must hold everywhere (page boundaries included), so the
        # documentation's definedness conditions only guard the spec-based obligations
        defined = z3.And(st.defined)
    sm.reads.clear()
    try:
        ev = emu.execute_instruction(a)
    except core.EngineSignal:
        raise
    except BaseException as e:  # noqa: BLE001 - an escaping exception is an obligation failure
        eng.prove("no-exception", z3.BoolVal(False), detail=f"{text}: {type(e).__name__}: {e}")
        return PathOutcome("exception", exc=type(e).__name__)
    if ev.instruction.length() != length or ev.instruction.name() != instr.name():
        eng.prove("decode-deterministic", z3.BoolVal(False), detail=text)
    res = PathOutcome("checked", text=text, length=length)
    free = st.free
    final = {r: T(emu.regs.get(RN[r])) for r in REGS}
    final["PC"] = T(emu.regs.get(RN.PC))

    # cells whose initial content matters for a native replay of a counter-model
    for k in range(MAXLEN):
        eng.watch_cells.append((sm.init, T(at) + k))
    for ra in sm.reads:
        eng.watch_cells.append((sm.init, ra))
    for wa, _ in sm.writes:
        eng.watch_cells.append((sm.init, wa))
    for x, _ in st.reads:
        eng.watch_cells.append((sm.init, x))
    for x, _ in (_stores(st.mem, sm.init) or []):
        eng.watch_cells.append((sm.init, x))
    eng.watch_cells.append((sm.init, z3.BitVec("k!frame", W)))

    def ob(name, cond):
        if branch_check and name.startswith("reg:") and name not in ("reg:PC", "reg:S"):
            return True      # C05 runs: data-path registers are C04's business
        if branch_check:
            cond = z3.Implies(defined, cond)     # C05 runs use definedness as a hypothesis
        r = eng.prove(name, cond, detail=text)
        if r is False and known:
            o = eng.run.obligations[-1]
            for e in known:
                m = e.get("match", {})
                if "witness" not in m:
                    continue
                if not re.search(m.get("obligation", ""), name) or not re.search(m.get("detail", ""), text):
                    continue
                # the listed finding covers only inputs in its witness class: outside that class
                # the obligation must still hold, otherwise this is a different violation
                wit = eval(m["witness"], {"__builtins__": {}}, dict(eng.inputs))
                r2 = eng.prove(name + "@outside-known-witness", z3.Or(wit, cond), detail=text)
                if r2:
                    eng.run.obligations.pop()          # the auxiliary proof
                    o.detail = f"{text} [only within witness class of {e['id']}: {m['witness']}]"
                    o.name = name + "@known:" + e["id"]
                else:
                    aux = eng.run.obligations.pop()
                    o.model = aux.model                 # a counter-model outside the known class
                break
        return r

    exp = st.mem
    for f in free:
        if isinstance(f, tuple) and f[0] == "membits":
            _, ma, mm = f
            exp = z3.Store(exp, ma, (z3.Select(exp, ma) & z3.BitVecVal(~mm & 0xFF, 8)) |
                           (z3.Select(sm.arr, ma) & z3.BitVecVal(mm, 8)))
        if isinstance(f, tuple) and f[0] == "reset-ssr":
            pass
    # extensional equality stated point-wise for an arbitrary index k (k is a free symbol, hence
    # universally quantified in the validity check): much cheaper than array extensionality
    if not branch_check and _pairwise_mem(eng, sm, exp, text):
        mem_ok = True
    else:
        k = z3.BitVec("k!frame", W)
        eng.inputs.setdefault("k!frame", k)
        mem_ok = ob("mem", z3.Select(sm.arr, k) == z3.Select(exp, k))
    if mem_ok and not branch_check and not sm.arr.eq(exp):
        # proved lemma: both memory images are equal; lets values loaded back from memory
        # (vectors, popped values) be compared by congruence instead of store-chain reasoning
        eng.add(sm.arr == exp)
    for r in ("BA", "I", "X", "Y", "U", "S", "PC"):
        ob(f"reg:{r}", final[r] == st.r[r])
    fmask = 0xFF
    if "C" in free:
        fmask &= ~1
    if "Z" in free:
        fmask &= ~2
    if "Fhi" in free:
        fmask &= 3
    ob("reg:F", (final["F"] & fmask) == (st.r["F"] & fmask))
    if st.halted is not None:
        eng.prove("halted", z3.BoolVal(bool(emu.state.halted) == st.halted), detail=text)
    else:
        eng.prove("halted-unchanged", z3.BoolVal(emu.state.halted == halted0), detail=text)
    # ---- read footprint (C03): every byte read is an instruction byte or a documented source
    allowed = [T(at) + k for k in range(length)] + [x for x, _ in st.reads]
    seen = set()
    for ra in sm.reads:
        key = ra.get_id()
        if key in seen:
            continue
        seen.add(key)
        ras = z3.simplify(ra)
        if any(z3.is_bv_value(ras) and z3.is_bv_value(z3.simplify(x)) and ras.as_long() == z3.simplify(x).as_long()
               for x in allowed):
            continue
        ob("reads", z3.Or([ra == x for x in allowed]))
    res.free = [f if isinstance(f, str) else f[0] for f in free]
    if branch_check:
        _branch_obligations(eng, ev, st, T(at), length, final["PC"], text, hook=(ev.instruction, a))
    return res


def _hook_branches(eng, instr, a, length):
    """What Binary Ninja is actually handed: SC62015.get_instruction_info at the same, possibly symbolic, address.
    The callback's own decode() is cut by its contract (C01 proves it yields the instruction the fetch path yields):
    it is replaced by a stub returning the instruction already decoded, so what is checked here is everything the
    callback does on top of analyze()."""
    from sc62015 import arch as ARCH
    real = ARCH.decode
    ARCH.decode = lambda data, addr, opcodes: instr
    try:
        info = ARCH.SC62015().get_instruction_info(bytes(length + 2), a)
    finally:
        ARCH.decode = real
    if info is None:
        return None
    out = []
    for b in list(getattr(info, "branches", []) or []):
        bt = getattr(b, "type", None)
        tgt = getattr(b, "target", None)
        if bt is None and isinstance(b, tuple):
            bt, tgt = b[0], (b[1] if len(b) > 1 else None)
        out.append((bt, tgt))
    return info, out


def _branch_obligations(eng, ev, st, at, length, pc_final, text, conditional=True, hook=None):
    """C05: static branch facts (InstructionInfo filled by the real analyze()) vs the PC the
    real IL evaluation reached."""
    from binaryninja.enums import BranchType as BT
    info = ev.instruction_info
    M20 = 0xFFFFF
    if hook is not None:
        # the facts must be the ones the architecture callback hands to Binary Ninja, not only those of analyze()
        try:
            hk = _hook_branches(eng, hook[0], hook[1], length)
            eng.prove("hook:info-accepts", z3.BoolVal(hk is not None), detail=text)
        except core.EngineSignal:
            raise
        except BaseException as e:  # noqa: BLE001
            eng.prove("hook:info:no-exception", z3.BoolVal(False), detail=f"{text}: {type(e).__name__}: {e}")
            hk = None
        if hk is not None:
            hinfo, hbr = hk
            abr = []
            for b in list(getattr(info, "branches", []) or []):
                bt = getattr(b, "type", None)
                tgt = getattr(b, "target", None)
                if bt is None and isinstance(b, tuple):
                    bt, tgt = b[0], (b[1] if len(b) > 1 else None)
                abr.append((bt, tgt))
            same_kinds = [k for k, _ in hbr] == [k for k, _ in abr]
            eng.prove("hook:branch-kinds-are-analyze's", z3.BoolVal(same_kinds), detail=f"{text}: callback {[str(k) for k, _ in hbr]} vs analyze {[str(k) for k, _ in abr]}")
            if same_kinds:
                for (k, th), (_k2, ta) in zip(hbr, abr):
                    if th is None or ta is None:
                        eng.prove(f"hook:target:{getattr(k, 'name', k)}", z3.BoolVal(th is None and ta is None), detail=text)
                    else:
                        eng.prove(f"hook:target:{getattr(k, 'name', k)}", (T(th) & M20) == (T(ta) & M20),
                                  detail=f"{text}: the target handed to Binary Ninja equals analyze()'s modulo the 20-bit program counter")
    nxt = (at + length) & M20
    eng.prove("info-length", z3.BoolVal(True) if not core.is_sym(info.length) and info.length == length
              else T(info.length) == length, detail=text)
    branches = list(getattr(info, "branches", []) or [])
    kinds = []
    targets = {}
    for b in branches:
        bt = getattr(b, "type", None)
        tgt = getattr(b, "target", None)
        if bt is None and isinstance(b, tuple):
            bt, tgt = b[0], (b[1] if len(b) > 1 else None)
        kinds.append(bt)
        targets.setdefault(bt, []).append(tgt)
    taken = getattr(st, "taken", None)

    def t20(x):
        return T(x) & M20

    if not branches:
        if text.strip() == "IR":
            # property C05: "a software interrupt counting as a call that returns there": the
            # pushed resume address (checked by the 'mem' obligation against the spec) is next
            eng.prove("software-interrupt-resume-address",
                      z3.Implies(z3.And(st.defined) if st.defined else z3.BoolVal(True),
                                 st.rd(st.get("S") + 2, 3, log=False) & M20 == nxt), detail=text)
            return
        eng.prove("no-branch=>falls-through", pc_final == nxt, detail=text)
        return
    names = sorted(str(getattr(k, "name", k)) for k in kinds)
    det = f"{text} branches={names}"
    if BT.UnconditionalBranch in targets:
        eng.prove("unconditional-target", pc_final == t20(targets[BT.UnconditionalBranch][0]), detail=det)
    if BT.CallDestination in targets:
        eng.prove("call-target", pc_final == t20(targets[BT.CallDestination][0]), detail=det)
    if (BT.TrueBranch in targets or BT.FalseBranch in targets) and conditional:
        if taken is None:
            eng.prove("conditional-has-condition", z3.BoolVal(False), detail=det)
        else:
            if BT.TrueBranch in targets:
                eng.prove("true-target", z3.Implies(taken, pc_final == t20(targets[BT.TrueBranch][0])), detail=det)
            else:
                eng.prove("true-target-reported", z3.BoolVal(False), detail=det)
            if BT.FalseBranch in targets:
                eng.prove("false-target", z3.Implies(z3.Not(taken), pc_final == t20(targets[BT.FalseBranch][0])), detail=det)
                eng.prove("false-target-is-next", t20(targets[BT.FalseBranch][0]) == nxt, detail=det)
            else:
                eng.prove("false-target-reported", z3.BoolVal(False), detail=det)
    resolved = {BT.UnconditionalBranch, BT.CallDestination, BT.TrueBranch, BT.FalseBranch}
    if not (set(kinds) & resolved):
        # only return / unresolved / indirect records: nothing to compare, but they must not be
        # attached to an instruction that always falls through
        eng.prove("unresolved-branch-can-leave", z3.BoolVal(eng.feasible(pc_final != nxt)), detail=det)


def _stores(arr, base):
    out = []
    cur = arr
    while z3.is_store(cur):
        a, i, v = cur.children()
        out.append((i, v))
        cur = a
    if not cur.eq(base):
        return None
    out.reverse()
    return out


def _pairwise_mem(eng, sm, exp, text):
    """Sufficient condition for equal memory images: same number of stores onto the same initial
    array with pairwise equal addresses and values, in order.  Returns True when it discharged
    the 'mem' obligation; False => caller falls back to the point-wise extensional check."""
    a, b = _stores(sm.arr, sm.init), _stores(exp, sm.init)
    if a is None or b is None or len(a) != len(b):
        return False
    t0 = time.time()
    for (ia, va), (ib, vb) in zip(a, b):
        c = z3.And(ia == ib, va == vb)
        if z3.is_true(z3.simplify(c)):
            continue
        if eng.feasible(z3.Not(c)):
            return False
    ob = core.Obligation("mem", "proved", backend="z3-pairwise-stores", seconds=time.time() - t0)
    eng.run.obligations.append(ob)
    return True


def check_unit(pre, opcode, block_n=None, max_paths=6000, wall_s=600, sym_addr=False, known=(), branch_check=False):
    """Explore all paths of one work unit; returns a plain-dict report."""
    t0 = time.time()
    run = core.Run(max_paths=max_paths, wall_s=wall_s)
    status = "ok"
    err = None
    try:
        core.explore(lambda eng: run_path(eng, pre, opcode, block_n, sym_addr=sym_addr, known=known, branch_check=branch_check), run=run)
    except core.Undecided as e:
        status, err = "undecided", str(e)
    except core.EngineError as e:
        status, err = "engine-error", str(e)
    except isa.SpecError as e:
        status, err = "undecided", f"spec grammar: {e}"
    kinds = {}
    texts = set()
    for _, r in run.results:
        kinds[r.kind] = kinds.get(r.kind, 0) + 1
        if getattr(r, "text", None):
            texts.add(r.text)
    obs = run.obligations
    rep = dict(
        unit=dict(pre=pre, opcode=opcode, block_n=block_n),
        status=status, error=err, kinds=kinds, texts=sorted(texts)[:6], ntexts=len(texts),
        obligations=len(obs),
        proved=sum(o.status == "proved" for o in obs),
        failed=core.failed_sample(obs, 20, extra=lambda o: {"path_len": len(o.path or [])}),
        nfailed=sum(o.status == "failed" for o in obs),
        unknown=sum(o.status == "unknown" for o in obs),
        undecided_notes=run.undecided[:5],
        stats=run.stats.as_dict(), wall_s=round(time.time() - t0, 2),
        slowest=sorted(((round(o.seconds, 2), o.name) for o in obs), reverse=True)[:4],
        allow_empty=bool(kinds) and set(kinds) <= {"unimplemented", "rejected"},
        by_backend=_count_backends(obs),
    )
    return rep


def _count_backends(obs):
    out = {}
    for o in obs:
        if o.status == "proved":
            out[o.backend] = out.get(o.backend, 0) + 1
    return out


def unit_entry(unit):
    """Pool entry point: unit = dict(pre=, opcode=, block_n=, sym_addr=)."""
    from symx import env
    env.setup()
    return check_unit(unit.get("pre"), unit["opcode"], unit.get("block_n"),
                      max_paths=unit.get("max_paths", 8000), wall_s=unit.get("wall_s", 600),
                      sym_addr=unit.get("sym_addr", False), known=unit.get("known", ()),
                      branch_check=unit.get("branch_check", False))


# --------------------------------------------------------------------------- C07: history independence
class _SwitchMem:
    """Memory callbacks whose backing SymMem can be swapped between the history phase and
    the phase under comparison (the emulator object, its decoder and every cache survive)."""

    def __init__(self):
        self.cur = None

    def read(self, a):
        return self.cur.read(a)

    def write(self, a, v):
        return self.cur.write(a, v)


HISTORY = [
    # (description, bytes, address or None = the address of the instruction under test)
    ("same opcode, zero operands, same address", None, None),
    ("CALL at the same address (call depth bookkeeping)", [0x04, 0x34, 0x12], None),
    ("DADL (BCD and accumulator temps)", [0xC4, 0x10, 0x20], None),
    ("near CALL on another 64K page (return-page bookkeeping)", [0x04, 0x34, 0x12], 0x31000),
    ("ADCL with a non-zero result (zero accumulator temp left dirty)", [0x54, 0x10, 0x20], None),
    # the power-state flag is neither a register, a flag nor memory: an earlier HALT that left it set
    # must not change what an instruction does to registers, flags and memory
    ("HALT executed before (power-state flag left set)", [0xDE], None, "keep-halted"),
    # a prefix byte that cannot be fused (stacked prefixes): rejected or executed as a dangling prefix, it must
    # leave nothing behind that changes the addressing of the next instruction
    ("two stacked PRE bytes executed before (dangling prefix)", [0x32, 0x30, 0x08, 0x10], None),
    # tracing state: a performance tracer attached to the memory object (the hook execute_instruction and the
    # fetch path look for) must not change any architectural result
    ("performance tracer attached to the memory (tracing state)", None, None, "tracer"),
]


class _NullTracer:
    """Stands for any tracer object: records nothing, accepts every call of the tracing interface."""

    class _Slice:
        def __enter__(self):
            return self

        def __exit__(self, *a):
            return False

    def slice(self, *a, **k):
        return _NullTracer._Slice()

    def instant(self, *a, **k):
        return None

    def counter(self, *a, **k):
        return None

    def __bool__(self):
        return True


def _module_state():
    """Simple-valued globals of the modules an instruction's effect must not depend on."""
    import sys
    out = {}
    for name in ("sc62015.pysc62015.emulator", "sc62015.pysc62015.instr.opcodes",
                 "sc62015.pysc62015.instr.instructions", "sc62015.pysc62015.cached_decoder",
                 "sc62015.pysc62015.intrinsics", "binja_test_mocks.eval_llil"):
        m = sys.modules.get(name)
        if m is None:
            continue
        for k, v in vars(m).items():
            if k.startswith("__"):
                continue
            if isinstance(v, (int, float, str, bool, tuple, frozenset, type(None))) and not isinstance(v, type):
                out[f"{name}.{k}"] = repr(v)
            elif isinstance(v, (dict, list, set)):
                out[f"{name}.{k}#len"] = len(v)
    return out


def run_path_hist(eng, pre, opcode, hist_idx, block_n=None, addr=0x1000):
    EMU, OPC, asm_str = _mods()
    RN = EMU.RegisterName
    code = ([pre] if pre is not None else []) + [opcode]
    EMU.register_sc62015_intrinsics()      # idempotent registry: populate before the snapshot
    mod0 = _module_state()

    def fresh_mem():
        sm = SymMem("mem", eng)
        for i, b in enumerate(code):
            sm.cache[addr + i] = b
        return sm

    # constraints on the shared initial array (same term for both SymMem instances)
    base = SymMem("mem", eng)
    for i, b in enumerate(code):
        base.preload(addr + i, b)
    init = {r: eng.fresh(r, REG_BITS[r]) for r in REGS}
    if block_n is not None:
        init["I"] = block_n
    pc0 = eng.fresh("PC0", 20)

    keep_halted = len(HISTORY[hist_idx]) > 3 and HISTORY[hist_idx][3] == "keep-halted"

    def load_arch(emu, tag):
        for r in REGS:
            emu.regs.set(RN[r], init[r])
        emu.regs.set(RN.PC, pc0)
        for i in range(EMU.NUM_TEMP_REGISTERS):
            emu.regs._values[RN[f"TEMP{i}"]] = eng.fresh(f"{tag}TEMP{i}", 24)
        if not (keep_halted and tag == "b"):
            emu.state.halted = False

    def execute(emu):
        try:
            ev = emu.execute_instruction(addr)
        except OPC.InvalidInstruction:
            return ("rejected",)
        except core.EngineSignal:
            raise
        except NotImplementedError:
            return ("unimplemented",)
        except BaseException as e:  # noqa: BLE001
            return ("exception", type(e).__name__)
        ins = ev.instruction
        return ("ok", ins.name(), ins.length(), type(ins).__name__)

    # ---- run A: fresh emulator
    swa = _SwitchMem()
    swa.cur = fresh_mem()
    ea = EMU.Emulator(EMU.Memory(swa.read, swa.write), reset_on_init=False)
    load_arch(ea, "a")
    ra = execute(ea)
    ma = swa.cur
    # ---- run B: same process, an emulator with a history
    swb = _SwitchMem()
    hm = SymMem("hist", eng)
    desc, hbytes, haddr = HISTORY[hist_idx][:3]
    haddr = addr if haddr is None else haddr
    hb = hbytes if hbytes is not None else code + [0] * 6
    for i in range(16):
        hm.cache[haddr + i] = hb[i] if i < len(hb) else 0
    swb.cur = hm
    eb = EMU.Emulator(EMU.Memory(swb.read, swb.write), reset_on_init=False)
    for r, v in (("BA", 0x1234), ("I", 2), ("X", 0x20010), ("Y", 0x20020), ("U", 0x30000), ("S", 0x40000), ("F", 1)):
        eb.regs.set(RN[r], v)
    # keep the history concrete: unconstrained history cells read as symbolic bytes would fork
    orig_read = hm.read

    def hread(a):
        if not isinstance(a, SymInt) and a not in hm.cache:
            hm.cache[a] = 0x11
        return orig_read(a)

    hm.read = hread
    try:
        eb.execute_instruction(haddr)
    except core.EngineSignal:
        raise
    except BaseException:  # noqa: BLE001 - the history may end any way it likes
        pass
    swb.cur = fresh_mem()
    load_arch(eb, "b")
    if len(HISTORY[hist_idx]) > 3 and HISTORY[hist_idx][3] == "tracer":
        eb.memory._perf_tracer = _NullTracer()
    rb = execute(eb)
    mb = swb.cur
    if ra[0] != "ok" and rb[0] != "ok":
        eng.prove("same-outcome", z3.BoolVal(ra == rb), detail=f"{ra} vs {rb}")
        return PathOutcome(ra[0])
    for mm in (ma, mb):
        for a_ in mm.reads:
            eng.watch_cells.append((base.init, a_))
        for a_, _v in mm.writes:
            eng.watch_cells.append((base.init, a_))
    eng.watch_cells.append((base.init, z3.BitVec("k!frame", W)))
    text = f"{ra} after history '{desc}'"
    eng.prove("same-outcome", z3.BoolVal(ra == rb), detail=f"{ra} vs {rb}")
    for r in REGS + ("PC",):
        eng.prove(f"hist:reg:{r}", T(ea.regs.get(RN[r])) == T(eb.regs.get(RN[r])), detail=text)
    k = z3.BitVec("k!frame", W)
    eng.inputs.setdefault("k!frame", k)
    eng.prove("hist:mem", z3.Select(ma.arr, k) == z3.Select(mb.arr, k), detail=text)
    if not keep_halted or ea.state.halted:
        eng.prove("hist:halted", z3.BoolVal(ea.state.halted == eb.state.halted), detail=text)
    mod1 = _module_state()
    diff = sorted(k for k in set(mod0) | set(mod1) if mod0.get(k) != mod1.get(k))
    eng.prove("module-state-unchanged", z3.BoolVal(not diff), detail=f"changed globals: {diff[:5]}")
    return PathOutcome("checked", text=text)


def check_unit_hist(pre, opcode, hist_idx, block_n=None, max_paths=8000, wall_s=600):
    t0 = time.time()
    run = core.Run(max_paths=max_paths, wall_s=wall_s)
    status, err = "ok", None
    try:
        core.explore(lambda eng: run_path_hist(eng, pre, opcode, hist_idx, block_n), run=run)
    except core.Undecided as e:
        status, err = "undecided", str(e)
    except core.EngineError as e:
        status, err = "engine-error", str(e)
    kinds = {}
    for _, r in run.results:
        kinds[r.kind] = kinds.get(r.kind, 0) + 1
    obs = run.obligations
    return dict(
        unit=dict(pre=pre, opcode=opcode, block_n=block_n, hist=hist_idx),
        status=status, error=err, kinds=kinds, obligations=len(obs),
        proved=sum(o.status == "proved" for o in obs),
        failed=core.failed_sample(obs, 10),
        nfailed=sum(o.status == "failed" for o in obs),
        unknown=sum(o.status == "unknown" for o in obs),
        undecided_notes=run.undecided[:5], stats=run.stats.as_dict(), wall_s=round(time.time() - t0, 2),
        allow_empty=(set(kinds) <= {"rejected", "unimplemented"}),
    )


def hist_entry(unit):
    from symx import env
    env.setup()
    return check_unit_hist(unit.get("pre"), unit["opcode"], unit["hist"], unit.get("block_n"),
                           wall_s=unit.get("wall_s", 600))


# --------------------------------------------------------------------------- C07 bounded companion
def unit_hist_concrete(unit):
    """Bounded stand-in (concrete values): process-wide / per-object caches keyed on part of the
    instruction bytes cannot be reached symbolically (hashing a symbolic key), so the same statement
    is also sampled concretely.  Reference: the sample executed in a FRESH interpreter (nothing ran
    before it).  Subject: the same sample executed in this process after a history that shares the
    leading k bytes of the instruction but has a different tail, executed (a) on another Emulator
    object and (b) on the same Emulator object."""
    import json
    import random
    import subprocess
    import sys
    from symx import env
    env.setup()
    EMU, OPC, asm_str = _mods()
    RN = EMU.RegisterName
    t0 = time.time()
    pre, opcode = unit.get("pre"), unit["opcode"]
    rng = random.Random((unit.get("seed", 0) << 16) ^ (opcode << 4) ^ (pre or 0))
    code0 = ([pre] if pre is not None else []) + [opcode]
    n = unit.get("samples", 6)
    samples, hists = [], []
    addr = 0x1000
    for s in range(n):
        tail = [rng.randrange(256) for _ in range(6)]
        if s % 2 == 0:
            tail[0] = rng.choice([0x04, 0x24, 0x34, 0x84, 0xC4, 0x00, 0x80, 0xC0, 0x42])
        k = s % 6
        htail = tail[:k] + [(x ^ rng.randrange(1, 256)) for x in tail[k:]]
        regs = dict(BA=rng.randrange(1 << 16), I=rng.choice([1, 2, 3]), X=0x20000 + rng.randrange(0x1000), Y=0x30000 + rng.randrange(0x1000),
                    U=0x40000 + rng.randrange(0x1000), S=0x50000 + rng.randrange(0x1000), F=rng.randrange(4), PC=0)
        base = {0x100000 + i: rng.randrange(256) for i in range(256)}
        for a in range(0x20000, 0x20000 + 0x1100, 7):
            base[a] = rng.randrange(256)
        img = dict(base)
        for i, b in enumerate(code0 + tail):
            img[addr + i] = b
        himg = dict(base)
        for i, b in enumerate(code0 + htail):
            himg[addr + i] = b
        samples.append(dict(addr=addr, regs=regs, mem={str(a): v for a, v in img.items()}))
        hists.append(himg)
    ref = subprocess.run([sys.executable, "-m", "contracts.cpu_ref"], input=json.dumps(samples), capture_output=True, text=True,
                         timeout=280, env=dict(os.environ, VERIF_REPO=os.environ.get("VERIF_REPO", "/repo")), cwd=os.path.dirname(os.path.dirname(os.path.abspath(__file__))))
    if ref.returncode != 0:
        return dict(unit=unit, status="undecided", error="reference interpreter failed: " + ref.stderr[-300:], kinds={}, obligations=0, proved=0,
                    failed=[], nfailed=0, unknown=0, undecided_notes=[], stats={}, wall_s=round(time.time() - t0, 2))
    want = json.loads(ref.stdout)
    obs = []

    def make(mem, regs):
        e = EMU.Emulator(EMU.Memory(lambda a: mem.get(a, 0), lambda a, v: mem.__setitem__(a, v & 0xFF)), reset_on_init=False)
        for r, v in regs.items():
            e.regs.set(RN[r], v)
        return e

    def run(e, a):
        try:
            e.execute_instruction(a)
            return "ok"
        except Exception as ex:  # noqa: BLE001
            return type(ex).__name__

    for s, himg, w in zip(samples, hists, want):
        regs = s["regs"]
        img = {int(a): v for a, v in s["mem"].items()}
        for variant in ("other-object", "same-object", "same-object-decoded-only"):
            mb = dict(img)
            if variant == "other-object":
                run(make(dict(himg), regs), addr)
                eb = make(mb, regs)
            else:
                cur = {"m": dict(himg)}
                eb = EMU.Emulator(EMU.Memory(lambda a: cur["m"].get(a, 0), lambda a, v: cur["m"].__setitem__(a, v & 0xFF)), reset_on_init=False)
                for r, v in regs.items():
                    eb.regs.set(RN[r], v)
                if variant == "same-object-decoded-only":
                    # the history only *looked* at the old bytes (debugger view / trace label), it did not execute them
                    try:
                        eb.decode_instruction(addr)
                    except Exception:  # noqa: BLE001
                        pass
                else:
                    run(eb, addr)
                cur["m"] = mb
                for r, v in regs.items():
                    eb.regs.set(RN[r], v)
                eb.state.halted = False
            ob_ = run(eb, addr)
            got = dict(outcome=ob_, regs={r: eb.regs.get(RN[r]) for r in ("BA", "I", "X", "Y", "U", "S", "F", "PC")},
                       mem={str(a): v for a, v in mb.items() if v}, halted=bool(eb.state.halted))
            same = got == w
            code = bytes(img[addr + i] for i in range(len(code0) + 6)).hex()
            hcode = bytes(himg[addr + i] for i in range(len(code0) + 6)).hex()
            obs.append(core.Obligation(f"concrete-history:{variant}", "proved" if same else "failed", backend="enumeration",
                                       detail=None if same else f"bytes {code} after history {hcode} ({variant}): fresh interpreter {w['outcome']} PC={w['regs']['PC']:#x} BA={w['regs']['BA']:#x}; "
                                                                f"with history {got['outcome']} PC={got['regs']['PC']:#x} BA={got['regs']['BA']:#x}"))
    return dict(unit=unit, status="ok", error=None, kinds={"samples": n}, obligations=len(obs),
                proved=sum(o.status == "proved" for o in obs), failed=core.failed_sample(obs, 6),
                nfailed=sum(o.status == "failed" for o in obs), unknown=0, undecided_notes=[], stats=dict(paths=0, queries=0, solver_s=0.0),
                by_backend={"enumeration": sum(o.status == "proved" for o in obs)}, wall_s=round(time.time() - t0, 2), bounded=True)


# --------------------------------------------------------------------------- C07: the snapshot stepper
STEP_CASES = [
    # (text, bytes, concrete pointer registers) - operands are direct addresses so that the image keys stay concrete
    ("MV A,(20)", [0x80, 0x20], {}),
    ("MV (20),A", [0xA0, 0x20], {}),
    ("MV A,[020000]", [0x88, 0x00, 0x00, 0x02], {}),
    ("MV [020000],A", [0xA8, 0x00, 0x00, 0x02], {}),
    ("PUSHU A", [0x2E], {"U": 0x30010}),
    ("POPU A", [0x3E], {"U": 0x3000F}),
    ("CALL 1234", [0x04, 0x34, 0x12], {"S": 0x40010}),
    ("RET", [0x06], {"S": 0x4000E}),
    ("ADD (20),A", [0x43, 0x20], {}),
]


def unit_stepper(unit):
    """Contract of CPUStepper.step / CPU.step_snapshot (sc62015/pysc62015/stepper.py): the result (registers,
    changed registers, memory image, write log, name, length) is the effect of Emulator.execute_instruction on
    a fresh Emulator loaded with the same registers and memory image - whatever was stepped before in this
    process.  Register values and the data bytes of the image are symbolic; the instruction under test is
    stepped fresh, then again after every history case (each of which writes or reads the same cells) stepped
    through new and reused stepper objects and through CPU.step_snapshot."""
    from symx import env
    env.setup(extra=["sc62015.pysc62015.stepper", "sc62015.pysc62015.cpu"])
    EMU, OPC, asm_str = _mods()
    from sc62015.pysc62015 import stepper as ST
    from sc62015.pysc62015 import cpu as CPUM
    RN = EMU.RegisterName
    text, code, fixed = STEP_CASES[unit["case"]]
    default = unit.get("default", 0)
    addr = 0x1000
    t0 = time.time()
    run = core.Run(max_paths=4000, wall_s=400)

    def body(eng):
        vals = {r: (fixed[r] if r in fixed else eng.fresh(r, REG_BITS[r])) for r in REGS}
        data_cells = {0x100020: eng.fresh("m_imem20", 8), 0x20000: eng.fresh("m_ext", 8), 0x3000F: eng.fresh("m_u", 8),
                      0x4000E: eng.fresh("m_s0", 8), 0x4000F: eng.fresh("m_s1", 8)}
        if unit.get("sparse"):
            data_cells = {}
        image = {addr + i: b for i, b in enumerate(code)}
        image.update(data_cells)

        def snap():
            return ST.CPURegistersSnapshot(pc=addr, ba=vals["BA"], i=vals["I"], x=vals["X"], y=vals["Y"], u=vals["U"], s=vals["S"], f=vals["F"])

        # reference: a fresh Emulator over a private copy of the image
        mem = dict(image)
        emu = EMU.Emulator(EMU.Memory(lambda a: mem.get(a, default), lambda a, v: mem.__setitem__(a, v & 0xFF)), reset_on_init=False)
        snap().apply_to(emu.regs)
        ev = emu.execute_instruction(addr)
        ref_regs = {r: emu.regs.get(RN[r]) for r in REGS + ("PC",)}

        def compare(tag, res):
            P = lambda n, c, d=None: eng.prove(f"stepper:{tag}:{n}", core._b(c), detail=d)
            got = dict(BA=res.registers.ba, I=res.registers.i, X=res.registers.x, Y=res.registers.y, U=res.registers.u, S=res.registers.s,
                       F=res.registers.f, PC=res.registers.pc)
            for r in REGS + ("PC",):
                P(f"reg:{r}", SymBool(T(got[r]) == T(ref_regs[r])), f"{text}: register {r} of the step result vs a fresh Emulator")
            P("image-keys", set(res.memory_image) == set(mem), f"{sorted(set(res.memory_image) ^ set(mem))[:6]}")
            for a_ in sorted(set(res.memory_image) & set(mem)):
                P("image-cell", SymBool(T(res.memory_image[a_]) == T(mem[a_])), f"{text}: cell {a_:#x} of the resulting image vs a fresh Emulator")
            P("name-and-length", res.instruction_name == ev.instruction.name() and res.instruction_length == ev.instruction.length())
            wr = {}
            for w in res.memory_writes:
                wr[w.address] = w.value
            P("writes-are-the-changed-cells", all(a_ in mem for a_ in wr) and
              all(bool(SymBool(T(wr[a_]) == T(mem[a_]))) for a_ in wr), "the write log names cells of the final image with their final values")

        one = ST.CPUStepper(default_memory_value=default)
        compare("fresh", one.step(snap(), image))
        # history: every case (with other register values) through a new stepper, the reused stepper and CPU.step_snapshot
        for hi, (htext, hcode, hfixed) in enumerate(STEP_CASES):
            himage = {addr + i: b for i, b in enumerate(hcode)}
            hs = ST.CPURegistersSnapshot(pc=addr, ba=0x7755, i=3, x=0x20010, y=0x20020, u=hfixed.get("U", 0x30010), s=hfixed.get("S", 0x40010), f=1)
            stp = (one, ST.CPUStepper(default_memory_value=default))[hi % 2]
            try:
                if hi % 3 == 2:
                    CPUM.CPU(EMU.Memory(lambda a: 0, lambda a, v: None), reset_on_init=False).step_snapshot(hs, himage, default_memory_value=default)
                else:
                    stp.step(hs, himage)
            except core.EngineSignal:
                raise
            except BaseException:   # noqa: BLE001 - a history step may end any way it likes
                pass
        compare("after-history", one.step(snap(), image))
        compare("after-history:new-stepper", ST.CPUStepper(default_memory_value=default).step(snap(), image))
        # chained use: the image dict RETURNED by a previous step is edited in place by the host (here: rewritten
        # into the image under test) and handed back to the same stepper object -- the result must only depend on
        # the contents of the dict, not on which dict object it is
        for hi in (1, 4):
            htext, hcode, hfixed = STEP_CASES[hi]
            himage = {addr + i: b for i, b in enumerate(hcode)}
            himage.update({0x100020: 0x5A, 0x20000: 0x77})
            hs = ST.CPURegistersSnapshot(pc=addr, ba=0x7755, i=3, x=0x20010, y=0x20020, u=hfixed.get("U", 0x30010), s=hfixed.get("S", 0x40010), f=1)
            prev = one.step(hs, himage)
            handed_back = prev.memory_image
            handed_back.clear()
            handed_back.update(image)
            compare(f"chained-same-dict-after-{hi}", one.step(snap(), handed_back))
        P0 = lambda n, c, d=None: eng.prove(n, core._b(c), detail=d)
        P0("stepper:caller-image-untouched", all(k in image for k in image) and len(image) == len(code) + len(data_cells) and
           all(image[addr + i] == b for i, b in enumerate(code)), "step() must not modify the caller's memory image")
        return PathOutcome("checked", text=text)

    status, err = "ok", None
    try:
        core.explore(body, run=run)
    except core.Undecided as e:
        status, err = "undecided", str(e)
    except core.EngineError as e:
        status, err = "engine-error", str(e)
    obs = run.obligations
    by = {}
    for o in obs:
        if o.status == "proved":
            by[o.backend] = by.get(o.backend, 0) + 1
    return dict(unit=unit, status=status, error=err, kinds={}, obligations=len(obs), proved=sum(o.status == "proved" for o in obs),
                failed=core.failed_sample(obs, 12), nfailed=sum(o.status == "failed" for o in obs),
                unknown=sum(o.status == "unknown" for o in obs), undecided_notes=run.undecided[:5], stats=run.stats.as_dict(), by_backend=by,
                wall_s=round(time.time() - t0, 2))
