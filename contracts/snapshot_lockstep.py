"""C16 bounded companion (plain CPython, no instrumentation; run in a fresh interpreter).

For a handful of concrete machine scenarios: run the real PCE500Emulator to a save point, save a
snapshot, load it into a fresh emulator built the same way a user would (same ROM), then
 (1) deep-compare the two object graphs attribute by attribute, modulo a stated list of
     host-side bookkeeping attributes (view completeness: state the restore-point contract of
     contracts/snapshot.py does not name shows up here as a difference), and
 (2) continue both for M steps and compare the view after every step (registers, power state,
     memory image, LCD chips, keyboard, timers, interrupt latches, cycle counter).
Prints one JSON document; exit status 0.  Bounded: scenarios x save points x M steps, all listed."""
from __future__ import annotations

import enum
import hashlib
import json
import os
import sys
import tempfile
import types

os.environ.setdefault("FORCE_BINJA_MOCK", "1")
from binja_test_mocks import binja_api  # noqa: F401,E402

import pce500.emulator as PE  # noqa: E402
from sc62015.pysc62015.emulator import RegisterName as RN  # noqa: E402

# attribute-path fragments that are host-side bookkeeping (never read by step() to decide machine behaviour)
EXCLUDE = {
    "start_time": "wall clock of the host",
    "_trace_instr_count": "trace numbering",
    "_active_trace_instruction": "trace numbering",
    "_trace_substep": "trace numbering",
    "vram_pc_source": "provenance of VRAM bytes for the debugger (documented as not persisted)",
    "imem_access_tracking": "debugger access log",
    "on_off_count": "diagnostic counter",
    "data_read_count": "diagnostic counter",
    "instruction_history": "debugger history",
    "_last_pc": "address of the previously executed instruction (debugger/trace)",
    "_current_pc": "address bookkeeping for traces; rewritten at the start of every step",
    "last_pc": "address of the previously executed instruction (debugger/trace)",
    "_kb_col_hist": "diagnostic histogram",
    "column_histogram": "diagnostic histogram",
    "_last_kil_columns": "diagnostic",
    "_kil_read_count": "diagnostic counter",
    "memory_read_count": "diagnostic counter",
    "memory_write_count": "diagnostic counter",
    "perf": "performance counters",
    "_perf": "performance counters",
    "_tracer": "tracing",
    "trace": "tracing",
    "_impl._last_pc": "debugger bookkeeping",
    "_last_imem_values": "debugger: last values seen of watched internal registers",
    "irq_bit_watch": "debugger: which PCs set/cleared IMR/ISR bits (keys become strings in JSON)",
    "irq_counts": "diagnostic counters",
    "last_irq": "diagnostic record of the last delivery",
    "_write_log": "debugger bus log",
    "_read_log": "debugger bus log",
    "_imr_cache_value": "read cache of the IMR cell (None = not cached, the cell is read instead)",
    "_interrupt_stack": "trace ids of open interrupt frames (trace output only)",
    "_next_interrupt_id": "trace ids",
    "_impl._current_pc": "debugger bookkeeping",
}


def walk(o, path, seen, out, depth=0):
    if isinstance(o, (int, float, str, bytes, bool, type(None))):
        out[path] = o
        return
    if id(o) in seen or depth > 10:
        return
    seen.add(id(o))
    if isinstance(o, bytearray):
        out[path] = ("bytes", len(o), hashlib.sha1(bytes(o)).hexdigest())
        return
    if isinstance(o, dict):
        for k, v in o.items():
            walk(v, path + f"[{k!r}]", seen, out, depth + 1)
        return
    if isinstance(o, (set, frozenset)):
        o = sorted(o, key=repr)
    if isinstance(o, (list, tuple)) or type(o).__name__ == "deque":
        o = list(o)
        if len(o) > 64 and all(isinstance(x, int) for x in o):
            out[path] = ("ints", len(o), hashlib.sha1(repr(o).encode()).hexdigest())
            return
        for i, v in enumerate(o):
            walk(v, path + f"[{i}]", seen, out, depth + 1)
        return
    if isinstance(o, enum.Enum):
        out[path] = repr(o)
        return
    if isinstance(o, (types.FunctionType, types.MethodType, types.BuiltinFunctionType, type, types.ModuleType)):
        return
    items = []
    d = getattr(o, "__dict__", None)
    if d is not None:
        items += list(d.items())
    for cls in type(o).__mro__:
        for k in getattr(cls, "__slots__", ()) or ():
            if isinstance(k, str) and hasattr(o, k):
                items.append((k, getattr(o, k)))
    if not items:
        out[path] = ("obj", type(o).__name__)
        return
    for k, v in items:
        walk(v, path + "." + k, seen, out, depth + 1)


def excluded(path):
    for frag in EXCLUDE:
        if ("." + frag) in path or path.endswith(frag):
            return frag
    return None


def graph_diff(a, b):
    oa, ob = {}, {}
    walk(a, "e", set(), oa)
    walk(b, "e", set(), ob)
    for o, e in ((oa, a), (ob, b)):
        if "e.memory.external_memory" in o:
            o["e.memory.external_memory"] = ("observable-bytes", hashlib.sha1(observable_image(e.memory)).hexdigest())
    diffs, skipped = [], {}
    for k in sorted(set(oa) | set(ob)):
        va, vb = oa.get(k, "<absent>"), ob.get(k, "<absent>")
        if va == vb:
            continue
        if "<absent>" in (va, vb):
            # attribute created lazily on one side only (class attribute shadowed by an equal instance attribute)
            leaf = k.rsplit(".", 1)[-1]
            if "[" not in leaf and not k.startswith("e.memory.imem_access_tracking"):
                try:
                    if _resolve(a, k) == _resolve(b, k):
                        continue
                except Exception:
                    pass
        ex = excluded(k)
        if ex:
            skipped[ex] = skipped.get(ex, 0) + 1
            continue
        diffs.append(dict(path=k, original=repr(va)[:80], restored=repr(vb)[:80]))
    return diffs, skipped, len(oa)


def _resolve(root, path):
    cur = root
    for part in path.split(".")[1:]:
        if "[" in part:
            raise KeyError(part)
        cur = getattr(cur, part)
    return cur


def observable_image(mem):
    """The external image with the cells that no access can reach blanked: cells under a handler window
    (LCD, card slot) or under the payload of a data overlay are served by the overlay, never by the
    image (C11) -- except the last 256 bytes, which hold the internal RAM."""
    img = bytearray(mem.external_memory)
    n = len(img)
    keep = bytes(img[-256:])
    for ov in mem.overlays:
        if ov.start >= n:
            continue
        end = min(ov.end + 1, n) if ov.data is None else min(ov.start + len(ov.data), ov.end + 1, n)
        img[ov.start:end] = bytes(end - ov.start)
    img[-256:] = keep
    return bytes(img)


def view(e):
    """The machine state the property talks about, as a comparable dict."""
    regs = {n: e.cpu.regs.get(getattr(RN, n)) for n in ("PC", "BA", "I", "X", "Y", "U", "S", "F")}
    mem = hashlib.sha1(observable_image(e.memory)).hexdigest()
    ovl = []
    for ov in e.memory.overlays:
        if ov.data is not None and not ov.read_only:
            ovl.append((ov.name, hashlib.sha1(bytes(ov.data)).hexdigest()))
    card = getattr(e.memory, "_card_data", None)
    if card is not None:
        ovl.append(("memory-card", hashlib.sha1(bytes(card)).hexdigest()))
    chips = []
    for chip in e.lcd.chips:
        chips.append((chip.state.on, chip.state.start_line, chip.state.page, chip.state.y_address, chip.state.busy,
                      hashlib.sha1(repr(chip.vram).encode()).hexdigest()))
    kb = e.keyboard.snapshot_state() if hasattr(e.keyboard, "snapshot_state") else None
    if isinstance(kb, dict):
        kb = {k: v for k, v in kb.items() if k not in ("column_histogram", "strobe_count", "irq_count")}
    s = e._scheduler
    return dict(regs=regs, halted=bool(e.cpu.state.halted), mem=mem, overlays=ovl, lcd=chips, keyboard=kb,
                timers=(s.enabled, s.mti_period, s.sti_period, s.next_mti, s.next_sti, e._timer_enabled),
                irq=(bool(e._irq_pending), bool(e._in_interrupt), bool(e._key_irq_latched), getattr(e._irq_source, "name", None)),
                cycles=e.cycle_count, instructions=e.instruction_count)


VEC = 0xB8100


def make(scn):
    e = PE.PCE500Emulator(save_lcd_on_exit=False)
    rom = bytearray(0x40000)
    rom[0x3FFFA:0x3FFFD] = bytes([VEC & 0xFF, (VEC >> 8) & 0xFF, (VEC >> 16) & 0xFF])
    e.load_rom(bytes(rom))
    return e


def program(e, scn):
    w = lambda a, bs: [e.memory.write_byte(a + i, b) for i, b in enumerate(bs)]
    # handler at VEC: MV A,(ISR) ; MV (ISR),00 ; RETI
    w(VEC, [0x80, 0xFC, 0xCC, 0xFC, 0x00, 0x01])
    base = 0xB8000
    if scn in ("loop-timers", "card-ram"):
        # MV (IMR),0x83 ; loop: INC A ; MV [X++],A ; JR -5
        w(base, [0xCC, 0xFB, 0x83, 0x6C, 0x00, 0xB0, 0x24, 0x13, 0x05])
        e._timer_mti_period, e._timer_sti_period = 7, 11
        e._scheduler.mti_period, e._scheduler.sti_period = 7, 11
        e._scheduler.reset(cycle_base=0)
    elif scn == "halt-wake":
        # MV (IMR),0x81 ; NOP ; HALT ; INC A ; JR -3
        w(base, [0xCC, 0xFB, 0x81, 0x00, 0xDE, 0x6C, 0x00, 0x13, 0x03])
        e._timer_mti_period, e._timer_sti_period = 9, 0
        e._scheduler.mti_period, e._scheduler.sti_period = 9, 0
        e._scheduler.reset(cycle_base=0)
    elif scn == "keys":
        # MV (IMR),0x84 ; MV (KOL),0xFF ; MV (KOH),0x0F; loop: MV A,(KIL) ; MV [X++],A ; JR -6
        w(base, [0xCC, 0xFB, 0x84, 0xCC, 0xF0, 0xFF, 0xCC, 0xF1, 0x0F, 0x80, 0xF2, 0xB0, 0x24, 0x13, 0x06])
    elif scn == "lcd":
        # MV A,0x3F ; MV [0x2000],A ; MV A,0xB9 ; MV [0x2000],A ; loop: INC A ; MV [0x2002],A ; MV A,[0x2005]; JR -..
        w(base, [0x08, 0x3F, 0xA8, 0x00, 0x20, 0x00, 0x08, 0xB9, 0xA8, 0x00, 0x20, 0x00,
                 0x6C, 0x00, 0xA8, 0x02, 0x20, 0x00, 0x88, 0x05, 0x20, 0x00, 0xA8, 0x02, 0x20, 0x00, 0x13, 0x10])
    e.cpu.regs.set(RN.PC, base)
    e.cpu.regs.set(RN.S, 0xBF000)
    e.cpu.regs.set(RN.U, 0xBE000)
    e.cpu.regs.set(RN.X, 0x40010 if scn == "card-ram" else 0xB9000)


def drive(e, scn, step_no):
    """External inputs, as a function of the step number only (same for original and restored run)."""
    if scn == "keys":
        if step_no == 4:
            e.press_key("KEY_A")
        if step_no == 40:
            e.release_key("KEY_A")
        if step_no == 55:
            e.press_key("KEY_Q")


def run(scn, save_points, m_steps):
    out = []
    for sp in save_points:
        a = make(scn)
        program(a, scn)
        twin = make(scn)            # the same machine, never asked for a snapshot
        program(twin, scn)
        for n in range(sp):
            drive(a, scn, n)
            a.step()
            drive(twin, scn, n)
            twin.step()
        tmp = tempfile.mkdtemp(prefix="c16_")
        path = os.path.join(tmp, "s.pcsnap")
        a.save_snapshot(path)
        b = make(scn)
        b.load_snapshot(path)
        diffs, skipped, n_attrs = graph_diff(a, b)
        first = None
        va, vb, vt = view(a), view(b), view(twin)
        disturbed = None
        if va != vt:
            disturbed = dict(step=0, fields=[k for k in va if va[k] != vt[k]])
        if va != vb:
            first = dict(step=0, fields=[k for k in va if va[k] != vb[k]])
        steps_done = 0
        if first is None:
            for n in range(sp, sp + m_steps):
                for e in (a, b, twin):
                    drive(e, scn, n)
                    e.step()
                steps_done += 1
                va, vb, vt = view(a), view(b), view(twin)
                if disturbed is None and va != vt:
                    disturbed = dict(step=n - sp + 1, fields=[k for k in va if va[k] != vt[k]])
                if va != vb:
                    first = dict(step=n - sp + 1, fields=[k for k in va if va[k] != vb[k]],
                                 original={k: va[k] for k in va if va[k] != vb[k] and k != "keyboard"},
                                 restored={k: vb[k] for k in va if va[k] != vb[k] and k != "keyboard"})
                    break
        import shutil
        shutil.rmtree(tmp, ignore_errors=True)
        out.append(dict(scenario=scn, save_point=sp, attributes_compared=n_attrs, graph_diffs=diffs[:20], n_graph_diffs=len(diffs),
                        excluded=skipped, lockstep_steps=steps_done, divergence=first, save_disturbs_original=disturbed))
    return out


def replay(body):
    """Native replayer (props/replay.py): re-run one (scenario, save point) of the companion."""
    m = body.get("model") or {}
    if "scenario" not in m:
        return 4, "no scenario recorded"
    r = run(m["scenario"], [m["save_point"]], m.get("m", 60))[0]
    if r["n_graph_diffs"] or r["divergence"] or r["save_disturbs_original"]:
        return 1, (f"scenario {m['scenario']} saved after {m['save_point']} steps: "
                   + json.dumps(dict(graph=r["graph_diffs"][:4], divergence=r["divergence"], save_disturbs_original=r["save_disturbs_original"]), default=str)[:900])
    return 0, f"scenario {m['scenario']} saved after {m['save_point']} steps: restored emulator equals the original and stays in lockstep for {r['lockstep_steps']} steps; the saving emulator stays equal to a twin that never saved"


def replay_memory(body):
    """Native replayer for the memory units: two real emulators configured like the unit, different
    pseudo-random contents, real save/load through a real file, the cell of the counter-model compared."""
    import random
    unit, model, name = body.get("unit") or {}, body.get("model") or {}, body.get("obligation") or ""
    cfg = unit.get("cfg", "plain")

    def mk(seed):
        rng = random.Random(seed)
        e = PE.PCE500Emulator(save_lcd_on_exit=False)
        e.memory.external_memory[:] = bytes(rng.randrange(256) for _ in range(len(e.memory.external_memory)))
        if "card" in cfg:
            e.memory.load_memory_card(bytes(rng.randrange(256) for _ in range(8192)), 8192)
        else:
            e.memory._card_data[:] = bytes(rng.randrange(256) for _ in range(len(e.memory._card_data)))
        if "rom" in cfg:
            e.load_rom(bytes(rng.randrange(256) for _ in range(0x40000)))
        if "xram" in cfg:
            e.memory.add_ram(0x60000, 0x1000, "extra_ram")
            for ov in e.memory.overlays:
                if ov.name == "extra_ram":
                    ov.data[:] = bytes(rng.randrange(256) for _ in range(len(ov.data)))
        return e

    a, b = mk(1), mk(2)
    if "external-image" in name and "i" in model:
        a.memory.external_memory[int(model["i"])] = 0x00   # the cell of the counter-model, bits 3/4 clear
    with tempfile.TemporaryDirectory(prefix="c16_") as tmp:
        p = os.path.join(tmp, "s.pcsnap")
        a.save_snapshot(p)
        b.load_snapshot(p)
    if "external-image" in name:
        i = int(model.get("i", 0))
        va, vb = a.memory.external_memory[i], b.memory.external_memory[i]
        where = f"external image cell 0x{i:05X}"
    elif ":card" in name:
        c = int(model.get("c", 0))
        va, vb = a.memory._card_data[c], b.memory._card_data[c]
        where = f"memory card byte 0x{c:04X}"
    elif ":overlay:" in name:
        oname = name.split(":overlay:")[1].split("@")[0]
        j = int(model.get("j_" + oname, 0))
        da = [o for o in a.memory.overlays if o.name == oname][0].data
        db = [o for o in b.memory.overlays if o.name == oname][0].data
        va, vb = da[j], db[j]
        where = f"overlay {oname} byte 0x{j:X}"
    else:
        return 4, "no native replayer for this obligation"
    if va != vb:
        return 1, f"{where}: original 0x{va:02X}, restored 0x{vb:02X} (configuration {cfg})"
    return 0, f"{where}: original and restored agree (0x{va:02X}) in configuration {cfg}"


def main():
    spec = json.loads(sys.argv[1]) if len(sys.argv) > 1 else dict(scenarios=["loop-timers", "halt-wake", "keys", "lcd", "card-ram"], save_points=[0, 3, 7, 12, 20, 33, 50], m=60)
    res = []
    for scn in spec["scenarios"]:
        res += run(scn, spec["save_points"], spec["m"])
    print(json.dumps(dict(results=res, excluded_attributes=EXCLUDE)))


if __name__ == "__main__":
    main()
