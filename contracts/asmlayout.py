"""C10: program layout.  Proved lemmas (SYMX): pass-1 size == pass-2 length for every symbol value
(O-size), near control-flow page rule (O-near).  Bounded contract check of Assembler.assemble on
generated programs against an independent layout calculator, and statelessness across calls."""
from __future__ import annotations

import os
import random
import re
import struct as _struct
import sys
import time

import z3

from symx import core
from symx.core import T, SymInt, SymBool

REPO = os.environ.get("VERIF_REPO", "/repo")


def _setup(shims=True):
    if shims:
        from symx import env
        env.setup(extra=["sc62015.pysc62015.sc_asm", "sc62015.pysc62015.asm"])
    else:
        os.environ["FORCE_BINJA_MOCK"] = "1"
        if sys.path[0] != REPO:
            sys.path.insert(0, REPO)
        from binja_test_mocks import binja_api  # noqa: F401
    from sc62015.pysc62015 import sc_asm as ASM
    from sc62015.pysc62015 import asm as ASMP
    from sc62015.pysc62015.instr import decode, OPCODES
    from sc62015.pysc62015.instr import opcodes as OPC
    from binja_test_mocks import tokens as TOK
    return ASM, ASMP, decode, OPCODES, OPC, TOK


def _report(obs, unit, t0, status="ok", err=None, kinds=None, stats=None, extra=None):
    by = {}
    for o in obs:
        if o.status == "proved":
            by[o.backend] = by.get(o.backend, 0) + 1
    d = dict(unit=unit, status=status, error=err, kinds=kinds or {}, obligations=len(obs),
             proved=sum(o.status == "proved" for o in obs),
             failed=core.failed_sample(obs, 12),
             nfailed=sum(o.status == "failed" for o in obs), unknown=sum(o.status == "unknown" for o in obs),
             undecided_notes=[], stats=stats or dict(paths=0, queries=0, solver_s=0.0), by_backend=by,
             wall_s=round(time.time() - t0, 2))
    d.update(extra or {})
    return d


# ----------------------------------------------------------------------------- symbolic forms
def symbolic_forms():
    """Instruction source forms with one operand replaced by the symbol FOO, derived from the
    disassembler's own output (every opcode, representative selector bytes)."""
    from contracts import asmrt
    ARCH, decode, OPCODES, OPC, ASM, TOK, ILF = asmrt._setup()
    forms = {}
    for op in range(256):
        if op in asmrt.PRE_BYTES:
            continue
        for b1 in (0x04, 0x24, 0x34, 0x84, 0xC4, 0x00, 0x80, 0xC0, 0x42, 0x45):
            b = bytes([op, b1, 0x12, 0x34, 0x05, 0x06, 0x07])
            try:
                ins = decode(b, 0x1000, OPCODES)
            except Exception:  # noqa: BLE001
                continue
            if ins is None:
                continue
            toks = ins.render()
            # positions of numeric tokens outside internal-memory parentheses
            depth_int = 0
            idxs = []
            for i, t in enumerate(toks):
                if isinstance(t, TOK.TBegMem) and t.mem_type == TOK.MemType.INTERNAL:
                    depth_int += 1
                elif isinstance(t, TOK.TEndMem) and t.mem_type == TOK.MemType.INTERNAL:
                    depth_int -= 1
                elif isinstance(t, (TOK.TInt, TOK.TAddr)) and depth_int == 0:
                    idxs.append(i)
            for i in idxs:
                parts = []
                for j, t in enumerate(toks):
                    if j == i:
                        s = str(t)
                        parts.append((s[0] if s[:1] in "+-" else "") + "FOO")
                    elif isinstance(t, TOK.TInt):
                        s = str(t)
                        sign = s[0] if s[:1] in "+-" else ""
                        parts.append(f"{sign}0x{s.lstrip('+-')}")
                    elif isinstance(t, TOK.TAddr):
                        parts.append("0x" + str(t))
                    else:
                        parts.append(str(t))
                text = "".join(parts)
                shape = re.sub(r"0x[0-9A-Fa-f]+", "#", text)
                forms.setdefault(shape, text)
    return sorted(forms.values())


def unit_size(unit):
    """O-size: for one source form with a symbolic operand, the size computed in pass one equals
    the number of bytes emitted in pass two, for EVERY value of the symbol (and every address)."""
    ASM, ASMP, decode, OPCODES, OPC, TOK = _setup()
    text = unit["form"]
    t0 = time.time()
    run = core.Run(max_paths=2000, wall_s=200)

    def body(eng):
        asm = ASM.Assembler()
        src = f"{text}\n"
        try:
            tree = ASMP.asm_parser.parse(src)
            ast = ASMP.AsmTransformer().transform(tree)
        except Exception as e:  # noqa: BLE001
            return "unparsable:" + type(e).__name__
        ast["source_text"] = src
        try:
            asm._first_pass(ast)
        except ASM.AssemblerError as e:
            return "pass1-rejects:" + str(e)[:60]
        line = [l for l in ast["lines"] if "statement" in l][0]
        ln = int(line.get("source_line", 1))
        size1 = asm.instructions_cache[ln].length()
        foo = eng.fresh("FOO", 24)
        cur = eng.fresh("current_address", 20)
        asm.symbols["FOO"] = foo
        asm.current_address = cur
        try:
            out = asm._encode_statement(line["statement"], ln)
        except core.EngineSignal:
            raise
        except (_struct.error, ASM.AssemblerError, ValueError) as e:
            return "pass2-rejects:" + type(e).__name__
        except BaseException as e:  # noqa: BLE001
            eng.prove("size:no-unexpected-error", z3.BoolVal(False), detail=f"{text}: {type(e).__name__}: {e}")
            return "crash"
        eng.prove("size:pass1==pass2", z3.BoolVal(len(out) == size1), detail=f"{text}: pass one {size1} bytes, pass two {len(out)} bytes")
        # O-value: the emitted bytes carry the symbol's value: decoding them (real decoder, same
        # address) shows a number that is FOO under one of the operand widths, for every FOO
        if unit.get("value", True):
            from symx.containers import SymBuf
            try:
                ins = decode(SymBuf(list(out)), cur, OPCODES)
                shown = TOK.asm_str(ins.render()) if ins is not None else None
            except core.EngineSignal:
                raise
            except BaseException as e:  # noqa: BLE001
                shown = None
            if shown is not None:
                import re as _re
                terms = [eng.placeholders[p][0] for p in _re.findall(r"<sym#\d+:[^>]*>", shown) if p in eng.placeholders]
                ok = False
                for tm in terms:
                    for m in (0xFF, 0xFFFF, 0xFFFFF, 0xFFFFFF):
                        if not eng.feasible(T(tm) != (T(foo) & m)):
                            ok = True
                            break
                    if ok:
                        break
                eng.prove("value:a-decoded-operand-is-the-symbol", z3.BoolVal(ok),
                          detail=f"{text}: assembled with FOO symbolic, the bytes decode to '{shown}' in which no number equals FOO (masked to 8/16/20/24 bits) for every FOO")
        return f"encodes:{len(out)}"

    status, err = "ok", None
    try:
        core.explore(body, run=run)
    except core.Undecided as e:
        status, err = "undecided", str(e)
    except core.EngineError as e:
        status, err = "engine-error", str(e)
    kinds = {}
    for _, r in run.results:
        kinds[r] = kinds.get(r, 0) + 1
    rep = _report(run.obligations, unit, t0, status, err, kinds, run.stats.as_dict())
    rep["undecided_notes"] = run.undecided[:4]
    rep["allow_empty"] = not any(k.startswith("encodes") for k in kinds)
    return rep


def unit_near(unit):
    """O-near: _normalize_near_control_flow for a symbolic instruction address and target: accepted
    iff the target lies on the 64 KiB page of the instruction, and then the low 16 bits are encoded."""
    ASM, ASMP, decode, OPCODES, OPC, TOK = _setup()
    mn = unit["mnemonic"]
    t0 = time.time()
    run = core.Run(max_paths=500, wall_s=120)

    def body(eng):
        asm = ASM.Assembler()
        src = f"{mn} FOO\n"
        ast = ASMP.AsmTransformer().transform(ASMP.asm_parser.parse(src))
        ast["source_text"] = src
        asm._first_pass(ast)
        line = [l for l in ast["lines"] if "statement" in l][0]
        ln = int(line.get("source_line", 1))
        foo = eng.fresh("FOO", 20)
        cur = eng.fresh("current_address", 20)
        asm.symbols["FOO"] = foo
        asm.current_address = cur
        same_page = (T(foo) & 0xF0000) == (T(cur) & 0xF0000)
        try:
            out = asm._encode_statement(line["statement"], ln)
        except core.EngineSignal:
            raise
        except ASM.AssemblerError:
            eng.prove("near:rejected-only-across-pages", z3.Not(same_page), detail=f"{mn}: rejected although target and instruction share a page")
            return "rejected"
        except BaseException as e:  # noqa: BLE001
            eng.prove("near:no-unexpected-error", z3.BoolVal(False), detail=f"{mn}: {type(e).__name__}: {e}")
            return "crash"
        eng.prove("near:accepted-only-on-the-same-page", same_page, detail=f"{mn}: accepted across a 64 KiB page boundary (page of the instruction's own address)")
        eng.prove("near:length", z3.BoolVal(len(out) == 3))
        eng.prove("near:encodes-low-16-bits", z3.And(T(out[1]) == (T(foo) & 0xFF), T(out[2]) == ((T(foo) >> 8) & 0xFF)), detail=mn)
        return "accepted"

    status, err = "ok", None
    try:
        core.explore(body, run=run)
    except core.Undecided as e:
        status, err = "undecided", str(e)
    except core.EngineError as e:
        status, err = "engine-error", str(e)
    kinds = {}
    for _, r in run.results:
        kinds[r] = kinds.get(r, 0) + 1
    rep = _report(run.obligations, unit, t0, status, err, kinds, run.stats.as_dict())
    rep["undecided_notes"] = run.undecided[:4]
    return rep


# ----------------------------------------------------------------------------- bounded layout
INSTR_POOL = [
    "NOP", "RET", "SC", "RC", "HALT", "MV A, 0x12", "MV BA, 0x1234", "MV X, 0x12345", "MV I, {sym16}", "MV X, {sym20}", "MV Y, {sym20}",
    "ADD A, 0x01", "SUB A, 0x7F", "AND A, 0xF0", "INC A", "DEC I", "PUSHU A", "POPU BA", "PUSHS F", "POPS F",
    "MV A, [0x{a20:05X}]", "MV [0x{a20:05X}], A", "MV A, [{sym20}]", "MV [{sym20}], BA", "MV A, [X]", "MV [Y++], A", "MV BA, [--U]", "MV A, [X+0x10]",
    "MV A, (BL)", "MV (CL), A", "MVW (BL), 0x1234", "MV (DL), 0x55", "JR +0x05", "JR -0x03", "JRZ +0x10", "JRNC -0x08",
    "JP {near}", "JPZ {near}", "JPNC {near}", "CALL {near}", "JPF {sym20}", "CALLF {sym20}", "CMP A, 0x00", "TEST A, 0x80", "EX A, B", "SWAP A", "WAIT",
]


def gen_program(rng, nstmt, bss=False):
    """A well-formed random program: labels (forward and backward references), sections, .ORG,
    data directives, instructions with symbolic operands.  With bss=True the bss section is used as a
    bss section: it only receives labels and `defs` reservations (code or initialised data there is not
    a well-formed program: nothing is emitted for it)."""
    nlab = rng.randrange(1, 5)
    labels = [f"L{i}" for i in range(nlab)]
    lines = []
    pending = list(labels)
    rng.shuffle(pending)
    section = "code"
    org_used = 0
    orgs_done = []
    # with a bss section: half of the programs have the canonical shape code / data / bss (in that order)
    canonical = {}
    if bss and rng.random() < 0.5 and nstmt >= 5:
        a = rng.randrange(1, nstmt - 3)
        b = rng.randrange(a + 2, nstmt - 1)
        canonical = {a: "data", b: "bss"}
    for i in range(nstmt):
        r = rng.random()
        lab = ""
        if pending and (rng.random() < 0.4 or nstmt - i <= len(pending)):
            lab = pending.pop() + ": "
        if i in canonical:
            section = canonical[i]
            lines.append(f"SECTION {section}")
            if lab:
                lines.append(lab.strip())
            continue
        if canonical and 0.10 <= r < 0.16:
            r = 0.5        # no further section switches in a canonical program
        if (r < 0.10 and org_used < 2) or (i == 0 and r < 0.25):
            org_used += 1
            if i > 0 and not orgs_done:
                orgs_done.append(0)          # statements were placed from address 0 on
            # an origin inside bytes that were already emitted is rejected by the image container:
            # keep origins of one program well apart (a program is at most a few dozen bytes long)
            pool = [x for x in (0x0, 0x10, 0x100, 0x8000, 0x1FF00, 0x2FFF0, 0x30000, 0x0) if all(abs(x - y) >= 0x400 for y in orgs_done)]
            if not pool:
                pool = [0x50000 + 0x1000 * org_used]
            o = rng.choice(pool)
            orgs_done.append(o)
            lines.append(f".ORG 0x{o:X}")
            if lab:
                lines.append(lab.strip())
            continue
        if r < 0.16:
            section = rng.choice(["code", "data", "bss"])
            lines.append(f"SECTION {section}")
            if lab:
                lines.append(lab.strip())
            continue
        if bss and section == "bss":
            lines.append(f"{lab}defs {rng.randrange(0, 9)}")
            continue
        if r < 0.36:
            kind = rng.choice(["defb", "defw", "defl", "defs", "defm"])
            if kind == "defb":
                args = ", ".join(rng.choice([f"0x{rng.randrange(256):02X}", str(rng.randrange(256)), rng.choice(labels)]) for _ in range(rng.randrange(1, 4)))
            elif kind == "defw":
                args = ", ".join(rng.choice([f"0x{rng.randrange(65536):04X}", rng.choice(labels)]) for _ in range(rng.randrange(1, 3)))
            elif kind == "defl":
                args = ", ".join(rng.choice([f"0x{rng.randrange(1 << 20):05X}", rng.choice(labels)]) for _ in range(rng.randrange(1, 3)))
            elif kind == "defs":
                args = str(rng.randrange(0, 9))
            else:
                alphabet = "ABC xyz09!#\\\\n\\\\0_-"
                args = '"' + "".join(rng.choice(["A", "b", " ", "9", "!", "\\\\n", "\\\\0", "_", "\\\\x41", "Z"]) for _ in range(rng.randrange(0, 6))) + '"'
                args = args.replace("\\\\", "\\")
            lines.append(f"{lab}{kind} {args}")
            continue
        t = rng.choice(INSTR_POOL)
        t = t.format(sym16=rng.choice(labels), sym20=rng.choice(labels), near=rng.choice(labels), a20=rng.randrange(1 << 20))
        lines.append(f"{lab}{t}")
    if bss and section == "bss" and pending:
        lines.append("SECTION code")
    for lab in pending:
        lines.append(f"{lab}: NOP")
    return "\n".join(lines) + "\n"


BASES = {"code": 0x00000, "text": 0x00000, "data": 0x80000, "bss": 0x90000}


def reference_layout(src, ASM):
    """Independent layout calculator (specification): walks the statements, keeps one location
    counter per section (bss continues where data ends; a new section starts at the highest counter),
    sizes every statement by assembling it ALONE, and resolves symbols by substitution.
    Returns (symbols, {address: byte}) or raises ValueError('rejects: ...')."""
    stmts = []
    for raw in src.splitlines():
        line = raw.strip()
        if not line:
            continue
        m = re.match(r"^([A-Za-z_][A-Za-z0-9_]*):\s*(.*)$", line)
        label, rest = (m.group(1), m.group(2).strip()) if m else (None, line)
        stmts.append((label, rest))

    addr_now = [0]

    def size_of(rest, symbols, final):
        """bytes of one statement assembled alone with symbols substituted (placeholder 0 when a
        forward symbol is not known yet: sizes do not depend on symbol values)."""
        if not rest:
            return b""
        head = rest.split()[0].lower()
        if head == "defs":
            return bytes(int(rest.split()[1], 0))
        if head == "defm":
            s = rest[rest.index('"') + 1:rest.rindex('"')]
            return s.encode("ascii")
        body = rest
        near = head.upper() in ("JP", "JPZ", "JPNZ", "JPC", "JPNC", "CALL")

        def sub(mm):
            name = mm.group(0)
            if name.upper() in symbols:
                v = symbols[name.upper()]
                if near:
                    # page-local control flow: the label must be on the page of the instruction;
                    # the instruction then carries the low 16 bits
                    if (v & 0xFF0000) != (addr_now[0] & 0xFF0000):
                        raise ValueError(f"rejects: {head} to {v:#x} from page {addr_now[0] & 0xFF0000:#x}")
                    return hex(v & 0xFFFF)
                return hex(v)
            return name
        if final:
            body = re.sub(r"\bL\d+\b", sub, body)
        else:
            body = re.sub(r"\bL\d+\b", "0", body)
        return body

    # pass A: sizes (symbol values irrelevant) -> addresses; pass B: bytes
    def walk(symbols, final):
        ptr = dict(BASES)
        sec = "code"
        image = {}
        syms = {}
        data_end = None
        for label, rest in stmts:
            head = rest.split()[0].lower() if rest else ""
            if head == "section":
                sec = rest.split()[1].lower()
                if sec not in ptr:
                    ptr[sec] = max(ptr.values())
                if label:
                    syms[label.upper()] = ptr[sec]
                continue
            if head == ".org":
                ptr[sec] = int(rest.split()[1], 0)
                if label:
                    syms[label.upper()] = ptr[sec]
                continue
            addr = ptr[sec]
            if label:
                syms[label.upper()] = addr
            if not rest:
                continue
            addr_now[0] = addr
            enc = size_of(rest, symbols, final)
            if isinstance(enc, str):
                out = ASM.Assembler().assemble(f".ORG 0x{addr:X}\n{enc}\n")
                enc = bytes(out.as_binary()) if len(out.segments) else b""
            if sec != "bss":
                for i, bt in enumerate(enc):
                    image[addr + i] = bt
            ptr[sec] = addr + len(enc)
        return syms, image, ptr

    syms0, _, ptr0 = walk({}, False)
    # bss follows data: the assembler places bss at the end of data after pass one
    if any(r.lower().startswith("section bss") for _, r in stmts) or True:
        pass
    syms1, image, _ = walk(syms0, True)
    return syms1, image


def unit_layout(unit):
    """Bounded: Assembler.assemble on generated programs == reference layout (bytes at addresses,
    symbol table), twice in a row on the same object and on a fresh one (determinism, statelessness)."""
    ASM, ASMP, decode, OPCODES, OPC, TOK = _setup(shims=False)
    t0 = time.time()
    rng = random.Random(unit["seed"])
    obs = []
    n = unit["programs"]
    kinds = {"accepted": 0, "rejected": 0}
    shared = ASM.Assembler()
    prev_src = None
    for k in range(n):
        src = gen_program(rng, rng.randrange(3, unit.get("max_statements", 12) + 1), bss=unit.get("bss", False))
        if not unit.get("bss", False):
            src = src.replace("SECTION bss", "SECTION data")

        def image_of(bf):
            img = {}
            for seg in bf.segments:
                base = seg.address
                for i, bt in enumerate(bytes(seg.data)):
                    img[base + i] = bt
            return img

        try:
            a1 = ASM.Assembler()
            got = image_of(a1.assemble(src))
            syms = dict(a1.symbols)
            ok = True
        except ASM.AssemblerError as e:
            ok, why = False, str(e)
        try:
            rsyms, want = reference_layout(src, ASM)
            rok = True
        except Exception as e:  # noqa: BLE001
            rok, rwhy = False, f"{type(e).__name__}: {e}"
        name = "layout"
        if ok != rok:
            obs.append(core.Obligation("layout:accepts-iff-every-statement-assembles-alone", "failed", backend="enumeration",
                                       detail=f"program {k} (seed {unit['seed']}): assembler {'accepts' if ok else 'rejects: ' + why[:120]}, "
                                              f"reference {'accepts' if rok else 'rejects: ' + rwhy[:120]}\n{src}"))
            continue
        if not ok:
            kinds["rejected"] += 1
            obs.append(core.Obligation("layout:rejected-consistently", "proved", backend="enumeration"))
            continue
        kinds["accepted"] += 1
        if got != want:
            diff = sorted(set(got.items()) ^ set(want.items()))[:6]
            obs.append(core.Obligation("layout:bytes-at-addresses", "failed", backend="enumeration",
                                       detail=f"program {k} (seed {unit['seed']}): differs at {[(hex(a), hex(v)) for a, v in diff]}\n{src}"))
        else:
            obs.append(core.Obligation("layout:bytes-at-addresses", "proved", backend="enumeration"))
        if {s: v for s, v in syms.items()} != rsyms:
            obs.append(core.Obligation("layout:symbols", "failed", backend="enumeration", detail=f"program {k}: {syms} vs {rsyms}\n{src}"))
        else:
            obs.append(core.Obligation("layout:symbols", "proved", backend="enumeration"))
        # determinism and statelessness: same object again, and an object that assembled other programs
        try:
            again = image_of(a1.assemble(src))
            used = image_of(shared.assemble(src))
            same = again == got and used == got and dict(shared.symbols) == syms
            why2 = ""
        except ASM.AssemblerError as e:
            same, why2 = False, str(e)[:120]
        obs.append(core.Obligation("layout:stateless-and-deterministic", "proved" if same else "failed", backend="enumeration",
                                   detail=None if same else f"program {k} (seed {unit['seed']}) differs on re-assembly / on an Assembler with history {why2}\n--- previous program on the shared object:\n{prev_src}\n--- this program:\n{src}"))
        # history variant: same text on the same line, symbol moved because another line changed
        src2 = "NOP\n" + src if rng.random() < 0.5 else src.replace("NOP", "NOP\nNOP", 1)
        try:
            shared.assemble(src2)
            fresh = image_of(ASM.Assembler().assemble(src2))
            used2 = image_of(shared.assemble(src2))
            same2 = fresh == used2
        except ASM.AssemblerError:
            same2 = True
        obs.append(core.Obligation("layout:edited-program-on-used-assembler", "proved" if same2 else "failed", backend="enumeration",
                                   detail=None if same2 else f"program {k} (seed {unit['seed']}): edited program assembles differently on an Assembler that saw the previous version\n{src2}"))
        prev_src = src
    for o in obs:
        if o.status == "failed":
            o.model = dict(seed=unit["seed"], programs=n, obligation=o.name)
    rep = _report(obs, unit, t0, "ok", None, kinds, dict(paths=n, queries=0, solver_s=0.0))
    rep["bounded"] = True
    return rep


def replay_layout(body):
    """Native replay: the generated programs are a function of the seed; re-run them and report the
    same obligation failing again."""
    unit, model = body["unit"], body.get("model") or {}
    if unit.get("fn") != "unit_layout" or "seed" not in model:
        return 4, "no generated program recorded"
    rep = unit_layout(dict(unit, seed=model["seed"], programs=model["programs"]))
    bad = [f for f in rep["failed"] if f["name"] == body.get("obligation")] or rep["failed"]
    if bad:
        return 1, f"{bad[0]['name']}: {str(bad[0]['detail'])[:600]}"
    return 0, "all generated programs of this seed assemble to the reference layout natively"


def unit_any(unit):
    return globals()[unit["fn"]](unit)
