"""C05 inverse-pair lemmas, stated over the instruction contracts (spec/isa.py), not re-executing
the code: the per-instruction obligations of C04/C05 prove the real lift equal to these contracts
for every address, so a lemma over the contracts transfers to the code (modular reasoning)."""
from __future__ import annotations

import time

import z3

from spec import isa

W = 64
M20 = 0xFFFFF


def _state(tag):
    regs = {r: z3.ZeroExt(W - b, z3.BitVec(f"{tag}{r}", b)) for r, b in
            (("BA", 16), ("I", 16), ("X", 20), ("Y", 20), ("U", 20), ("S", 20), ("F", 8))}
    regs["PC"] = isa.bv(0)
    mem = z3.Array(f"{tag}mem", z3.BitVecSort(W), z3.BitVecSort(8))
    return isa.State(regs, mem)


def _prove(name, hyps, goal, results, expect=True):
    s = z3.Solver()
    s.set("timeout", 60000)
    s.add(*hyps)
    s.add(z3.Not(goal))
    t0 = time.time()
    r = s.check()
    ok = (r == z3.unsat) if expect else (r == z3.sat)
    results.append(dict(name=name, status="proved" if ok else ("unknown" if r == z3.unknown else "failed"),
                        backend="z3", seconds=round(time.time() - t0, 3),
                        detail=("expected to be refutable (vacuity probe)" if not expect else None),
                        model=None if ok or r != z3.sat else {str(d): str(s.model()[d]) for d in s.model().decls()[:12]}))


def _pair(call_text, ret_text, call_len, results, tag):
    names = {"IMR": 0xFB}
    a = z3.ZeroExt(W - 20, z3.BitVec(f"{tag}a", 20))
    p = z3.ZeroExt(W - 20, z3.BitVec(f"{tag}p", 20))
    tgt = z3.ZeroExt(W - 20, z3.BitVec(f"{tag}t", 20))
    ph = {"<sym#0:04X>": (tgt & 0xFFFF, "04X"), "<sym#0:05X>": (tgt, "05X")}
    st = _state(tag)
    s0 = st.r["S"]
    f0 = st.r["F"]
    imr0 = st.get("IMR")
    isa.execute(call_text, ph, names, st, a, call_len)
    hyps = list(st.defined)
    st.defined = []
    # callee body: arbitrary, but stack-neutral and it leaves the frame bytes alone
    mem2 = z3.Array(f"{tag}mem_after_body", z3.BitVecSort(W), z3.BitVecSort(8))
    nframe = {"CALL": 2, "CALLF": 3, "IR": 5}[call_text.split()[0]]
    s1 = st.r["S"]
    for k in range(nframe):
        hyps.append(z3.Select(mem2, s1 + k) == z3.Select(st.mem, s1 + k))
    st2 = isa.State({r: z3.ZeroExt(W - b, z3.BitVec(f"{tag}body_{r}", b)) for r, b in
                     (("BA", 16), ("I", 16), ("X", 20), ("Y", 20), ("U", 20), ("F", 8))} | {"S": s1, "PC": isa.bv(0)}, mem2)
    isa.execute(ret_text, {}, names, st2, p, 1)
    hyps += st2.defined
    resume = (a + call_len) & M20
    kind = call_text.split()[0]
    if kind == "CALL":
        same_page = (p & 0xF0000) == (a & 0xF0000)
        _prove(f"{kind}/RET resumes after the call (same 64K page)", hyps + [same_page], st2.r["PC"] == resume, results)
        _prove(f"{kind}/RET page side condition is necessary", hyps, st2.r["PC"] == resume, results, expect=False)
    else:
        _prove(f"{kind}/{ret_text} resumes after the call", hyps, st2.r["PC"] == resume, results)
    _prove(f"{kind}/{ret_text} restores S", hyps, st2.r["S"] == s0, results)
    if kind == "IR":
        _prove("IR/RETI restores C and Z", hyps, (st2.r["F"] & 3) == (f0 & 3), results)
        _prove("IR/RETI restores IMR exactly", hyps, st2.get("IMR") == imr0, results)
        _prove("IR clears the master enable in the handler", hyps[:len(hyps) - len(st2.defined)],
               (z3.ZeroExt(W - 8, z3.Select(st.mem, isa.bv(isa.INTERNAL + 0xFB))) & 0x80) == 0, results)
    # vacuity: the hypotheses are satisfiable
    s = z3.Solver()
    s.add(*hyps)
    results.append(dict(name=f"{kind}: hypotheses satisfiable", status="proved" if s.check() == z3.sat else "failed",
                        backend="z3", seconds=0, detail="reachability probe", model=None))


def unit_lemmas(unit):
    t0 = time.time()
    results = []
    _pair("CALL  <sym#0:04X>", "RET", 3, results, "c")
    _pair("CALLF <sym#0:05X>", "RETF", 4, results, "f")
    _pair("IR", "RETI", 1, results, "i")
    return dict(unit=unit, status="ok", error=None, kinds={"lemma": len(results)}, obligations=len(results),
                proved=sum(r["status"] == "proved" for r in results),
                failed=[r for r in results if r["status"] == "failed"], nfailed=sum(r["status"] == "failed" for r in results),
                unknown=sum(r["status"] == "unknown" for r in results), undecided_notes=[],
                stats=dict(paths=0, queries=len(results), solver_s=round(time.time() - t0, 2)),
                by_backend={"z3": sum(r["status"] == "proved" for r in results)}, wall_s=round(time.time() - t0, 2),
                sample=[r["name"] for r in results])
