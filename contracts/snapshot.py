"""C16 (Python half): the restore-point contract of PCE500Emulator.save_snapshot / load_snapshot.

View V(e) of an emulator = everything one `step()` (and the host-visible devices) can read:
CPU registers incl. scratch registers and call bookkeeping, power state, cycle/instruction counters,
timer scheduler, interrupt latches, keyboard matrix (per-key automaton, queue, strobe registers),
both LCD chips (flags, counters, VRAM), and the memory image.  Contract:

    save_snapshot(a, path); load_snapshot(b, path)   ==>   V(b) == V(a)      for every V(a), any b

stated with the components symbolic (all values), on the real functions with `json` / `zipfile`
replaced by contract stubs (ints, bools, strings survive a dumps/loads round trip; an archive
returns the members written).  With V(b) == V(a) and `step` a deterministic function of V (Python
semantics over the object graph; checked for completeness of V by the bounded deep-diff companion in
unit_lockstep), continuing b equals continuing a step for step: the property's statement.
"""
from __future__ import annotations

import os
import shutil
import tempfile
import time

import z3

from symx import core
from symx.core import T, W, SymInt, SymBool
from contracts.timers import _JsonStub, _ZipStub, _report


def _setup():
    from symx import env
    env.setup(extra=["pce500.memory", "pce500.memory_bus", "pce500.emulator", "pce500.keyboard_matrix", "pce500.keyboard_handler",
                     "pce500.scheduler", "pce500.display.controller_wrapper", "pce500.display.pipeline", "pce500.display.hd61202",
                     "sc62015.pysc62015.stepper", "sc62015.pysc62015.cpu"])
    import pce500.emulator as PE
    from sc62015.pysc62015.emulator import RegisterName
    return PE, RegisterName


def _explore(body, unit, max_paths=4000, wall_s=400):
    t0 = time.time()
    run = core.Run(max_paths=max_paths, wall_s=wall_s)
    status, err = "ok", None
    try:
        core.explore(body, run=run)
    except core.Undecided as e:
        status, err = "undecided", str(e)
    except core.EngineError as e:
        status, err = "engine-error", str(e)
    kinds = {}
    for _, r in run.results:
        kinds[str(r)] = kinds.get(str(r), 0) + 1
    return _report(run, unit, t0, status, err, kinds)


class _Session:
    """save on `a`, load into a fresh `b`, with the json/zip contract stubs in place."""

    def __init__(self, PE):
        self.PE = PE
        self.stub = _JsonStub()
        self.real = (PE.json, PE.zipfile, PE._pack_register_bytes)
        PE.json, PE.zipfile = self.stub, _ZipStub
        # b"".join(chunks) over symbolic chunks: the function is re-derived from its real source with
        # the BytesJoin pass (as in C08's blob unit; nothing dropped)
        from symx import astpass
        PE._pack_register_bytes = astpass.rebuild(self.real[2], [astpass.BytesJoin()])
        self.tmp = tempfile.mkdtemp(prefix="symx_snap_")
        self.path = os.path.join(self.tmp, "s.pcsnap")

    def close(self):
        self.PE.json, self.PE.zipfile, self.PE._pack_register_bytes = self.real
        shutil.rmtree(self.tmp, ignore_errors=True)


def _bool_eq(x, y):
    return core._b(x) == core._b(y)


BASE = (("PC", 20), ("BA", 16), ("I", 16), ("X", 20), ("Y", 20), ("U", 20), ("S", 20), ("F", 8))
ALL_NAMES = ("A", "B", "BA", "IL", "IH", "I", "X", "Y", "U", "S", "PC", "F", "FC", "FZ")


def unit_core(unit):
    """CPU registers (one scratch register symbolic per unit, the others concrete non-zero), call
    bookkeeping, power state, counters, interrupt latches."""
    PE, RN = _setup()
    tk = unit.get("temp", 0)
    src_name = unit.get("irq_source")

    def body(eng):
        ses = _Session(PE)
        try:
            a = PE.PCE500Emulator(save_lcd_on_exit=False)
            vals = {}
            for name, bits in BASE:
                vals[name] = eng.fresh(name, bits)
                a.cpu.regs.set(getattr(RN, name), vals[name])
            tv = eng.fresh("TEMP", 24)
            for i in range(14):
                a.cpu.regs.set(getattr(RN, f"TEMP{i}"), tv if i == tk else 0x010203 + i)
            csl = eng.fresh("call_sub_level", 16)
            a.cpu.regs.call_sub_level = csl
            halted = eng.fresh_bool("halted")
            a.cpu.state.halted = halted
            pend, inint, latched = eng.fresh_bool("pending"), eng.fresh_bool("in_interrupt"), eng.fresh_bool("key_latched")
            a._irq_pending, a._in_interrupt, a._key_irq_latched = pend, inint, latched
            a._irq_source = PE.IRQSource[src_name] if src_name else None
            ic, cc, cd = eng.fresh("instruction_count", 40), eng.fresh("cycle_count", 40), eng.fresh("call_depth", 16)
            a.instruction_count, a.cycle_count, a.call_depth = ic, cc, cd
            kbi = eng.fresh_bool("kb_irq_enabled")
            a._kb_irq_enabled = kbi
            fast = eng.fresh_bool("fast_mode")
            a.fast_mode = fast
            a.save_snapshot(ses.path)
            P = lambda n, c, d=None: eng.prove(n, core._b(c), detail=d)
            # taking the snapshot must not disturb the machine it is taken from
            for name, _bits in BASE:
                P(f"save:pure:reg:{name}", a.cpu.regs.get(getattr(RN, name)) == vals[name])
            P("save:pure:power-state", _bool_eq(a.cpu.state.halted, halted))
            P("save:pure:irq-latches", z3.And(_bool_eq(a._irq_pending, pend), _bool_eq(a._in_interrupt, inint), _bool_eq(a._key_irq_latched, latched)))
            P("save:pure:counters", core.and_(a.instruction_count == ic, a.cycle_count == cc, a.call_depth == cd))
            b = PE.PCE500Emulator(save_lcd_on_exit=False)
            b.load_snapshot(ses.path)
            for name in ALL_NAMES:
                P(f"restore:reg:{name}", b.cpu.regs.get(getattr(RN, name)) == a.cpu.regs.get(getattr(RN, name)))
            for i in range(14):
                r = getattr(RN, f"TEMP{i}")
                P(f"restore:reg:TEMP{i}", b.cpu.regs.get(r) == a.cpu.regs.get(r), "scratch registers are part of what an instruction may read (C07 proves they are not, this does not rely on it)")
            P("restore:call_sub_level", b.cpu.regs.call_sub_level == csl)
            P("restore:power-state", _bool_eq(b.cpu.state.halted, halted), "a CPU that was halted (HALT/OFF) when the snapshot was taken is halted after the restore, a running one runs")
            P("restore:irq:pending", _bool_eq(b._irq_pending, pend))
            P("restore:irq:in-interrupt", _bool_eq(b._in_interrupt, inint))
            P("restore:irq:key-latched", _bool_eq(b._key_irq_latched, latched), "a key interrupt latched while a handler runs is re-asserted after the handler: the latch is future-relevant state")
            P("restore:irq:source", z3.BoolVal(b._irq_source is a._irq_source))
            P("restore:instruction_count", b.instruction_count == ic)
            P("restore:cycle_count", b.cycle_count == cc)
            P("restore:call_depth", b.call_depth == cd)
            P("restore:kb-irq-enabled", _bool_eq(b._kb_irq_enabled, kbi))
            P("restore:fast-mode", _bool_eq(b.fast_mode, fast), "step() takes a different path in fast mode")
            P("restore:pc-bookkeeping", b._current_pc == a.cpu.regs.get(RN.PC),
              "the emulator's current-PC bookkeeping names the instruction to execute next")
        finally:
            ses.close()
        return "roundtrip"

    return _explore(body, unit)


def unit_lcd(unit):
    """Both HD61202 chips: on/off, start line, page, column, busy flag, and the whole VRAM (every byte
    symbolic)."""
    PE, RN = _setup()

    def body(eng):
        ses = _Session(PE)
        try:
            a = PE.PCE500Emulator(save_lcd_on_exit=False)
            chips = a.lcd.chips
            st = []
            for ci, chip in enumerate(chips):
                on, busy = eng.fresh_bool(f"on{ci}"), eng.fresh_bool(f"busy{ci}")
                sl, pg, y = eng.fresh(f"start{ci}", 6), eng.fresh(f"page{ci}", 3), eng.fresh(f"y{ci}", 6)
                chip.state.on, chip.state.busy = on, busy
                chip.state.start_line, chip.state.page, chip.state.y_address = sl, pg, y
                cells = []
                for p in range(len(chip.vram)):
                    for c in range(len(chip.vram[p])):
                        v = eng.fresh(f"v{ci}_{p}_{c}", 8)
                        chip.vram[p][c] = v
                        cells.append(v)
                st.append(dict(on=on, busy=busy, sl=sl, pg=pg, y=y, cells=cells))
            a.save_snapshot(ses.path)
            P = lambda n, c, d=None: eng.prove(n, core._b(c), detail=d)
            for ci, (chip, s) in enumerate(zip(a.lcd.chips, st)):
                P(f"save:pure:lcd{ci}", z3.And(_bool_eq(chip.state.on, s["on"]), _bool_eq(chip.state.busy, s["busy"]), T(chip.state.start_line) == T(s["sl"]),
                                                T(chip.state.page) == T(s["pg"]), T(chip.state.y_address) == T(s["y"])),
                  "taking the snapshot leaves the chip's flags and counters alone (no read side effects)")
            b = PE.PCE500Emulator(save_lcd_on_exit=False)
            b.load_snapshot(ses.path)
            for ci, (chip, s) in enumerate(zip(b.lcd.chips, st)):
                P(f"restore:lcd{ci}:on", _bool_eq(chip.state.on, s["on"]))
                P(f"restore:lcd{ci}:busy", _bool_eq(chip.state.busy, s["busy"]), "the next status read returns the BUSY bit the original would return")
                P(f"restore:lcd{ci}:start-line", chip.state.start_line == s["sl"])
                P(f"restore:lcd{ci}:page", chip.state.page == s["pg"])
                P(f"restore:lcd{ci}:column", chip.state.y_address == s["y"])
                flat = [chip.vram[p][c] for p in range(len(chip.vram)) for c in range(len(chip.vram[p]))]
                P(f"restore:lcd{ci}:vram-shape", z3.BoolVal(len(flat) == len(s["cells"])))
                if len(flat) == len(s["cells"]):
                    P(f"restore:lcd{ci}:vram", z3.And([T(x) == T(y) for x, y in zip(flat, s["cells"])]), "every VRAM byte of the chip")
        finally:
            ses.close()
        return "roundtrip"

    return _explore(body, unit)


def unit_lcd_after_restore(unit):
    """A restored LCD is a working LCD: after save/load (VRAM given by the unit: blank, or a fixed
    pattern with blank pages in between) ONE data write with symbolic chip select, page, column and
    value is applied to the original and to the restored controller through the real write path; both
    VRAMs must then be equal cell by cell and the restored one must differ from its pre-write content in
    exactly that one cell (no sharing between pages or chips introduced by the restore)."""
    PE, RN = _setup()
    fill = unit.get("fill", "blank")

    def body(eng):
        ses = _Session(PE)
        try:
            a = PE.PCE500Emulator(save_lcd_on_exit=False)
            for ci, chip in enumerate(a.lcd.chips):
                for p in range(len(chip.vram)):
                    for c in range(len(chip.vram[p])):
                        chip.vram[p][c] = 0 if fill == "blank" or p % 3 else (7 * c + 13 * p + ci + 1) & 0xFF
            a.save_snapshot(ses.path)
            b = PE.PCE500Emulator(save_lcd_on_exit=False)
            b.load_snapshot(ses.path)
            P = lambda n, c, d=None: eng.prove(n, core._b(c), detail=d)
            rows = [row for chip in b.lcd.chips for row in chip.vram]
            P("restore:lcd:rows-are-separate-objects", z3.BoolVal(len({id(r) for r in rows}) == len(rows)),
              "no two VRAM pages of the restored controller are the same list object")
            before = [[list(row) for row in chip.vram] for chip in b.lcd.chips]
            ci = unit.get("chip", 0)
            page, col, val = unit.get("page", 2), eng.fresh("col", 6), eng.fresh("val", 8)
            for emu in (a, b):
                chip = emu.lcd.chips[ci]
                chip.state.page, chip.state.y_address = page, col
                chip.write_data(val)
            for cj, (ca, cb) in enumerate(zip(a.lcd.chips, b.lcd.chips)):
                for p in range(len(ca.vram)):
                    same = z3.And([T(x) == T(y) for x, y in zip(ca.vram[p], cb.vram[p])])
                    P(f"after-restore:write:lcd{cj}:page{p}:same-as-original", same,
                      "the same data write leaves the restored VRAM equal to the original's")
                    if not (cj == ci and p == page):
                        P(f"after-restore:write:lcd{cj}:page{p}:untouched", z3.And([T(x) == T(y) for x, y in zip(cb.vram[p], before[cj][p])]),
                          "a data write changes one cell of one page of one chip")
        finally:
            ses.close()
        return "roundtrip"

    return _explore(body, unit)


def unit_keyboard(unit):
    """Keyboard matrix: strobe registers, polarity, thresholds, queue (8 slots, head, tail), and the
    automaton state of one arbitrary key (unit parameter) with every field symbolic inside the
    invariant of C14; the other keys idle."""
    PE, RN = _setup()
    key = unit["key"]

    def body(eng):
        ses = _Session(PE)
        try:
            a = PE.PCE500Emulator(save_lcd_on_exit=False)
            kb = a.keyboard
            m = getattr(kb, "_matrix", None) or getattr(kb, "matrix", None) or kb
            ks = m._key_states[key]
            sym_key = unit.get("mode", "key") == "key"
            if sym_key:
                pressed, deb = eng.fresh_bool("pressed"), eng.fresh_bool("debounced")
                pt, rt, rp = eng.fresh("press_ticks", 16), eng.fresh("release_ticks", 16), eng.fresh("repeat_ticks", 16)
                kol, koh = unit.get("kol", 0), unit.get("koh", 0)
                head, tail = unit.get("head", 0), unit.get("tail", 0)
                slots = [(17 * i + 3) & 0xFF for i in range(len(m._fifo))]
            else:
                pressed, deb, pt, rt, rp = False, False, 0, 0, 0
                # 2^12 strobe settings: KOL symbolic (forks inside _active_columns), KOH enumerated by work unit
                kol, koh = eng.fresh("kol", 8), unit.get("koh", 0)
                head, tail = eng.fresh("head", 3), eng.fresh("tail", 3)
                slots = [eng.fresh(f"fifo{i}", 8) for i in range(len(m._fifo))]
            ks.pressed, ks.debounced, ks.press_ticks, ks.release_ticks, ks.repeat_ticks = pressed, deb, pt, rt, rp
            if unit.get("in_pressed_set", True) and sym_key:
                m._pressed_keys.add(key)
            m.kol, m.koh = kol, koh
            m._head, m._tail = head, tail
            for i, v in enumerate(slots):
                m._fifo[i] = v
            latched = eng.fresh_bool("key_latched")
            a._key_irq_latched = latched
            a.save_snapshot(ses.path)
            Pp = lambda n, c, d=None: eng.prove(n, core._b(c), detail=d)
            Pp("save:pure:key", z3.And(_bool_eq(ks.pressed, pressed), _bool_eq(ks.debounced, deb), T(ks.press_ticks) == T(pt), T(ks.release_ticks) == T(rt),
                                       T(ks.repeat_ticks) == T(rp)), "taking the snapshot does not step the key automaton (no scan tick, no key-input read)")
            Pp("save:pure:queue", z3.And([T(m._head) == T(head), T(m._tail) == T(tail)] + [T(x) == T(y) for x, y in zip(list(m._fifo), slots)]),
               "taking the snapshot does not consume or add queue entries")
            Pp("save:pure:key-latch", _bool_eq(a._key_irq_latched, latched))
            b = PE.PCE500Emulator(save_lcd_on_exit=False)
            b.load_snapshot(ses.path)
            kb2 = b.keyboard
            m2 = getattr(kb2, "_matrix", None) or getattr(kb2, "matrix", None) or kb2
            k2 = m2._key_states[key]
            P = lambda n, c, d=None: eng.prove(n, core._b(c), detail=d)
            P("restore:key:pressed", _bool_eq(k2.pressed, pressed))
            P("restore:key:debounced", _bool_eq(k2.debounced, deb))
            P("restore:key:press-ticks", k2.press_ticks == pt)
            P("restore:key:release-ticks", k2.release_ticks == rt)
            P("restore:key:repeat-ticks", k2.repeat_ticks == rp)
            P("restore:key:held-set", z3.BoolVal(set(m2._pressed_keys) == set(m._pressed_keys)))
            P("restore:kol", m2.kol == kol)
            P("restore:koh", m2.koh == koh)
            P("restore:fifo:head", m2._head == head)
            P("restore:fifo:tail", m2._tail == tail)
            P("restore:fifo:slots", z3.And([T(x) == T(y) for x, y in zip(list(m2._fifo), slots)]))
            for nm in ("press_threshold", "release_threshold", "repeat_delay", "repeat_interval", "columns_active_high", "scan_enabled"):
                P(f"restore:{nm}", z3.BoolVal(getattr(m2, nm) == getattr(m, nm)))
            others_idle = all((not s.pressed) and (not s.debounced) and s.press_ticks == 0 and s.release_ticks == 0 and s.repeat_ticks == 0
                              for kc, s in m2._key_states.items() if kc != key)
            P("restore:other-keys-idle", z3.BoolVal(others_idle))
            P("restore:kil-latch", m2._kil_latch == m._compute_kil(allow_pending=True), "the key-input latch equals what the original computes from the same state")
        finally:
            ses.close()
        return "roundtrip"

    return _explore(body, unit)


def _mem_config(e, tag, cfg):
    from symx.containers import ArrBuf
    e.memory.external_memory = ArrBuf("ext" + tag, 1024 * 1024)
    if "card" in cfg:
        e.memory.load_memory_card(bytes(16), 8192)
    # the card slot (power-on default: a 64 KiB card; "card" configurations: an 8 KiB one) holds arbitrary bytes
    e.memory._card_data = ArrBuf("card" + tag, len(e.memory._card_data))
    if "rom" in cfg:
        e.load_rom(ArrBuf("rom" + tag, 0x40000))
    if "xram" in cfg:
        e.memory.add_ram(0x60000, 0x1000, "extra_ram")
        for ov in e.memory._bus._overlays:
            if ov.name == "extra_ram":
                ov.data = ArrBuf("xram" + tag, 0x1000)


def unit_memory(unit):
    """The memory image: external 1 MiB image, ROM and card payloads as z3 arrays (every content);
    the fresh emulator is configured the same way but holds different arbitrary contents.  After
    save/load every canonical address reads the same byte on both emulators."""
    PE, RN = _setup()
    from symx.containers import ArrBuf
    from props import common
    cfg = unit["cfg"]
    known = unit.get("known", ())

    def body(eng):
        ses = _Session(PE)
        old = ArrBuf.COPY_ON_BYTEARRAY
        ArrBuf.COPY_ON_BYTEARRAY = True
        try:
            a = PE.PCE500Emulator(save_lcd_on_exit=False)
            _mem_config(a, "A", cfg)
            before = a.memory.external_memory.arr
            a.save_snapshot(ses.path)
            eng.prove("save:does-not-modify-memory", z3.BoolVal(z3.eq(a.memory.external_memory.arr, before)),
                      detail="taking a snapshot leaves the original's memory image untouched")
            b = PE.PCE500Emulator(save_lcd_on_exit=False)
            _mem_config(b, "B", cfg)
            b.load_snapshot(ses.path)
            # The backing stores are compared cell by cell; C11 proves that every read is a function of
            # these stores and the (identical) overlay configuration, so equal stores read equally.
            i = eng.fresh("i", 20)
            # cells of the image that lie under the payload of a data overlay are not observable (C11: the
            # overlay serves every access there) -- except the last 256 bytes, which hold the internal RAM
            # and are reached through internal addresses, not through the bus overlays
            for ov in a.memory.overlays:
                if ov.start >= 0x100000:
                    continue
                if ov.data is not None:
                    eng.assume(z3.Or(T(i) < ov.start, T(i) >= min(ov.start + len(ov.data), ov.end + 1), T(i) >= 0xFFF00))
                else:
                    # handler windows (LCD, card slot): every access is served by the handler, never by the image
                    eng.assume(z3.Or(T(i) < ov.start, T(i) > ov.end))
            common.prove_with_known(eng, "restore:memory:external-image", T(b.memory.external_memory[i]) == T(a.memory.external_memory[i]),
                                    "every byte of the 1 MiB image (internal RAM is its last 256 bytes) is the original's", known)
            names_a = [(ov.name, ov) for ov in a.memory.overlays if ov.data is not None]
            names_b = dict((ov.name, ov) for ov in b.memory.overlays if ov.data is not None)
            for name, ova in names_a:
                ovb = names_b.get(name)
                eng.prove(f"restore:memory:overlay:{name}:present", z3.BoolVal(ovb is not None and len(ovb.data) == len(ova.data)))
                if ovb is None or len(ovb.data) != len(ova.data):
                    continue
                j = eng.fresh("j_" + name, 20)
                eng.assume(T(j) < len(ova.data))
                common.prove_with_known(eng, f"restore:memory:overlay:{name}", T(ovb.data[j]) == T(ova.data[j]),
                                        f"every byte of the payload of overlay {name}", known)
            if a.memory._card_present:
                c = eng.fresh("c", 16)
                eng.assume(T(c) < len(a.memory._card_data))
                common.prove_with_known(eng, "restore:memory:card", T(b.memory._card_data[c]) == T(a.memory._card_data[c]),
                                        "every byte of the memory card is the original's", known)
        finally:
            ArrBuf.COPY_ON_BYTEARRAY = old
            ses.close()
        return "roundtrip"

    return _explore(body, unit, max_paths=2000, wall_s=500)


def unit_lockstep(unit):
    """Bounded companion, run in a fresh plain interpreter (contracts/snapshot_lockstep.py): deep
    object-graph comparison after save/load modulo the listed bookkeeping attributes, then lockstep
    continuation.  Each (scenario, save point) yields two bounded obligations."""
    import json
    import subprocess
    import sys
    t0 = time.time()
    repo = os.environ.get("VERIF_REPO", "/repo")
    here = os.path.dirname(os.path.abspath(__file__))
    spec = dict(scenarios=[unit["scenario"]], save_points=unit["save_points"], m=unit["m"])
    env = dict(os.environ, PYTHONPATH=repo, FORCE_BINJA_MOCK="1")
    env.pop("SYMX_FIX_INPUTS", None)
    p = subprocess.run([sys.executable, os.path.join(here, "snapshot_lockstep.py"), json.dumps(spec)], capture_output=True, text=True,
                       timeout=unit.get("timeout", 600), env=env, cwd=tempfile.gettempdir())
    if p.returncode != 0:
        return dict(unit=unit, status="checker-error", error="lockstep companion failed: " + (p.stderr or p.stdout)[-800:], obligations=0, proved=0,
                    failed=[], nfailed=0, unknown=0, stats={}, wall_s=round(time.time() - t0, 2))
    res = json.loads(p.stdout.strip().splitlines()[-1])["results"]
    failed, n = [], 0
    steps = 0
    for r in res:
        n += 3
        steps += r["lockstep_steps"]
        model = dict(scenario=r["scenario"], save_point=r["save_point"], m=unit["m"])
        if r["n_graph_diffs"]:
            failed.append(dict(name=f"view-complete:{r['scenario']}@{r['save_point']}", model=model, backend="evaluation",
                               detail="attributes of the restored emulator that differ from the original and are not listed as bookkeeping: "
                                      + "; ".join(f"{d['path']}: {d['original']} -> {d['restored']}" for d in r["graph_diffs"][:6])))
        if r.get("save_disturbs_original"):
            d_ = r["save_disturbs_original"]
            failed.append(dict(name=f"save-is-pure:{r['scenario']}@{r['save_point']}", model=model, backend="evaluation",
                               detail=f"the emulator that took the snapshot differs from a twin that never saved, {d_['step']} step(s) after the save point, in {d_['fields']}"))
        if r["divergence"]:
            failed.append(dict(name=f"lockstep:{r['scenario']}@{r['save_point']}", model=model, backend="evaluation",
                               detail=f"restored emulator diverges from the original {r['divergence']['step']} step(s) after the save point in {r['divergence']['fields']}: "
                                      + json.dumps({k: r['divergence'].get(k) for k in ('original', 'restored')}, default=str)[:600]))
    return dict(unit=unit, status="ok", error=None, kinds={"scenario-run": len(res)}, obligations=n, proved=n - len(failed), failed=failed[:12], nfailed=len(failed),
                unknown=0, undecided_notes=[], stats=dict(paths=len(res), queries=0, solver_s=0.0), by_backend={"evaluation": n - len(failed)},
                wall_s=round(time.time() - t0, 2), lockstep_steps=steps, attributes=max((r["attributes_compared"] for r in res), default=0))


RUST_REQUIRED_NOTE = "fields of the Rust SnapshotMetadata / TimerInfo / InterruptInfo structs without a serde default"


def _rust_struct_fields(src, name):
    """[(field, has_default, type)] of `pub struct <name> {...}` from the Rust source text."""
    import re
    m = re.search(r"pub struct %s\s*\{(.*?)\n\}" % re.escape(name), src, re.S)
    if not m:
        return None
    out, default = [], False
    for line in m.group(1).splitlines():
        line = line.strip()
        if line.startswith("#["):
            if "default" in line:
                default = True
            continue
        mm = re.match(r"pub (\w+):\s*(.+?),?$", line)
        if mm:
            typ = mm.group(2).rstrip(",")
            out.append((mm.group(1), default or typ.startswith("Option<"), typ))
            default = False
    return out


def unit_metadata(unit):
    """Cross-language ground obligations (by evaluation): the metadata the real Python save_snapshot
    writes has every field the Rust loader requires, with a JSON type the Rust field accepts, and the
    Rust structs do not reject unknown fields (so the Python-only fields are tolerated)."""
    PE, RN = _setup()
    t0 = time.time()
    run = core.Run(max_paths=10, wall_s=120)
    repo = os.environ.get("VERIF_REPO", "/repo")
    src = open(os.path.join(repo, "sc62015/core/src/lib.rs")).read()

    def body(eng):
        ses = _Session(PE)
        try:
            a = PE.PCE500Emulator(save_lcd_on_exit=False)
            a.save_snapshot(ses.path)
            meta = ses.stub.saved
            members = set(_ZipStub.store[ses.path])
        finally:
            ses.close()
        P = lambda n, c, d=None: eng.prove(n, z3.BoolVal(bool(c)), detail=d)
        jt = {"String": str, "bool": bool, "u8": int, "u32": int, "u64": int, "i32": int, "usize": int}
        for struct, obj in (("SnapshotMetadata", meta), ("TimerInfo", meta.get("timer")), ("InterruptInfo", meta.get("interrupts"))):
            fields = _rust_struct_fields(src, struct)
            P(f"meta:{struct}:struct-found", fields is not None and isinstance(obj, dict))
            if fields is None or not isinstance(obj, dict):
                continue
            P(f"meta:{struct}:unknown-fields-tolerated", "deny_unknown_fields" not in src[max(0, src.index("pub struct " + struct) - 300):src.index("pub struct " + struct)],
              "Python writes fields Rust does not know; serde must ignore them")
            for name, has_default, typ in fields:
                if not has_default:
                    P(f"meta:{struct}:{name}:written-by-python", name in obj, f"Rust requires `{name}: {typ}` (no serde default)")
                if name in obj and typ in jt and obj[name] is not None:
                    ok = isinstance(obj[name], jt[typ]) and (jt[typ] is bool or not isinstance(obj[name], bool))
                    P(f"meta:{struct}:{name}:json-type", ok, f"Rust type {typ}, Python wrote {type(obj[name]).__name__}")
        P("meta:power-state-values", meta.get("power_state") in ("running", "halted", "off"), "serde(rename_all = snake_case) names of PowerState")
        for member in ("snapshot.json", "registers.bin", "external_ram.bin", "lcd_vram.bin"):
            P(f"archive:{member}", member in members)
        return "ground"

    status, err = "ok", None
    try:
        core.explore(body, run=run)
    except core.Undecided as e:
        status, err = "undecided", str(e)
    except core.EngineError as e:
        status, err = "engine-error", str(e)
    return _report(run, unit, t0, status, err, {"ground": 1})


def unit_any(unit):
    return globals()[unit["fn"]](unit)
