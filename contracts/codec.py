"""C01 / C02: decoder totality, determinism, consumer agreement; encode as inverse of decode.

Work unit = (first byte, second byte or None, buffer length L).  All remaining bytes and the
address are symbolic.  Runs the real decode(), the three SC62015 architecture hooks and (for the
full-length buffer) Emulator.decode_instruction on the same bytes."""
from __future__ import annotations

import copy
import re
import time

import z3

from symx import core
from symx.containers import SymBuf, SymMem
from symx.core import T, W, SymInt, SymBool

PRE_BYTES = (0x21, 0x22, 0x23, 0x24, 0x25, 0x26, 0x27, 0x30, 0x31, 0x32, 0x33, 0x34, 0x35, 0x36, 0x37)
FULL = 8
PH = re.compile(r"(<sym#\d+:[^>]*>)")


def _setup():
    from symx import env
    env.setup()
    from sc62015 import arch as ARCH
    from sc62015.pysc62015 import emulator as EMU
    from sc62015.pysc62015.instr import opcodes as OPC
    from sc62015.pysc62015.instr.opcode_table import OPCODES
    from binja_test_mocks.tokens import asm_str
    from binja_test_mocks.mock_llil import MockLowLevelILFunction
    return ARCH, EMU, OPC, OPCODES, asm_str, MockLowLevelILFunction


# ------------------------------------------------------------------ structural comparison
def struct_eq(a, b, eng, depth=0):
    """z3 condition under which two Python structures (tokens, IL trees, operand graphs) holding
    proxies are equal; False when their shapes differ."""
    if depth > 40:
        return z3.BoolVal(True)
    if isinstance(a, (SymInt, SymBool)) or isinstance(b, (SymInt, SymBool)):
        ta, tb = T(a), T(b)
        if ta is None or tb is None:
            return z3.BoolVal(False)
        return ta == tb
    if isinstance(a, str) and isinstance(b, str):
        pa, pb = PH.split(a), PH.split(b)
        if len(pa) != len(pb):
            return z3.BoolVal(False)
        conds = []
        for x, y in zip(pa, pb):
            if PH.fullmatch(x) and PH.fullmatch(y):
                (tx, sx), (ty, sy) = eng.placeholders[x], eng.placeholders[y]
                if sx != sy:
                    return z3.BoolVal(False)
                conds.append(T(tx) == T(ty))
            elif x != y:
                return z3.BoolVal(False)
        return z3.And(conds) if conds else z3.BoolVal(True)
    if type(a) is not type(b):
        if isinstance(a, (int, bool)) and isinstance(b, (int, bool)):
            return z3.BoolVal(a == b)
        return z3.BoolVal(False)
    if isinstance(a, (int, float, bool, bytes, type(None))):
        return z3.BoolVal(a == b)
    if isinstance(a, (list, tuple)):
        if len(a) != len(b):
            return z3.BoolVal(False)
        cs = [struct_eq(x, y, eng, depth + 1) for x, y in zip(a, b)]
        return z3.And(cs) if cs else z3.BoolVal(True)
    if isinstance(a, dict):
        if set(a) != set(b):
            return z3.BoolVal(False)
        cs = [struct_eq(a[k], b[k], eng, depth + 1) for k in a]
        return z3.And(cs) if cs else z3.BoolVal(True)
    if hasattr(a, "__dict__"):
        da = {k: v for k, v in vars(a).items() if not k.startswith("_parent") and k != "_cached_helper"}
        db = {k: v for k, v in vars(b).items() if not k.startswith("_parent") and k != "_cached_helper"}
        return struct_eq(da, db, eng, depth + 1)
    if hasattr(a, "name") and hasattr(a, "value"):
        return z3.BoolVal(a is b)
    return z3.BoolVal(a == b)


def _snapshot_templates(OPCODES):
    """Deep structural fingerprint of the shared operand templates (history independence)."""
    out = {}
    for opc, ent in OPCODES.items():
        if isinstance(ent, tuple):
            out[opc] = repr(_plain(ent[1].ops))
    return out


def _plain(x, depth=0):
    if depth > 12:
        return "..."
    if isinstance(x, (list, tuple)):
        return [_plain(y, depth + 1) for y in x]
    if hasattr(x, "__dict__") and not isinstance(x, type):
        return (type(x).__name__, sorted((k, _plain(v, depth + 1)) for k, v in vars(x).items()))
    if isinstance(x, (SymInt, SymBool)):
        return "<symbolic leaked into template>"
    return repr(x)


# ------------------------------------------------------------------ the path harness
def run_path(eng, b0, b1, L, want):
    ARCH, EMU, OPC, OPCODES, asm_str, ILF = _setup()
    lead = [b0] + ([b1] if b1 is not None else [])
    lead = lead[:L]
    data = SymBuf(lead + [eng.fresh(f"b{i}", 8) for i in range(len(lead), L)])
    addr = eng.fresh("addr", 20)
    tpl0 = _snapshot_templates(OPCODES)
    arch = ARCH.SC62015()
    P = lambda name, cond, detail=None: eng.prove(name, core._b(cond), detail=detail)
    tag = "".join(f"{x:02X}" for x in lead) + f"/L{L}"

    # ---- the decoder itself
    outcome, instr = "ok", None
    log0 = set()
    probe = SymBuf(data.items, log0)
    try:
        instr = OPC.decode(probe, addr, OPCODES)
        if instr is None:
            outcome = "reject"
    except core.EngineSignal:
        raise
    except AssertionError:
        outcome = "assert"
    except OPC.InvalidInstruction:
        outcome = "invalid"
    except BaseException as e:  # noqa: BLE001
        outcome = "crash"
        P("decode:no-unexpected-error", False, f"{tag}: {type(e).__name__}: {e}")
    if outcome == "ok":
        n = instr.length()
        P("decode:length>=1", n >= 1, tag)
        P("decode:length<=supplied", n <= L, tag)
        decode_reads = (sorted(log0), n)
    # ---- hooks
    def hook(fn):
        try:
            return "ok", fn()
        except core.EngineSignal:
            raise
        except BaseException as e:  # noqa: BLE001
            return "raised", e

    s_info, info = hook(lambda: arch.get_instruction_info(SymBuf(data.items), addr))
    s_text, text = hook(lambda: arch.get_instruction_text(SymBuf(data.items), addr))
    il = ILF()
    s_il, il_len = hook(lambda: arch.get_instruction_low_level_il(SymBuf(data.items), addr, il))
    for nm, st, val in (("info", s_info, info), ("text", s_text, text), ("llil", s_il, il_len)):
        P(f"hook:{nm}:no-exception", st == "ok", f"{tag}: {val!r}" if st != "ok" else tag)
    accepted = s_info == "ok" and info is not None
    if accepted:
        P("hooks:info-accepts=>decoder-accepts", outcome == "ok", tag)
        if outcome == "ok":
            P("decode:reads-only-its-own-bytes", all(i < decode_reads[1] for i in decode_reads[0]),
              f"{tag}: indices read {decode_reads[0]} length {decode_reads[1]} (an accepted instruction cannot depend on bytes beyond its length)")
        if outcome == "ok":
            P("hooks:info-length=decoder-length", info.length == instr.length(), tag)
        P("hooks:info-accepts=>text-accepts", s_text == "ok" and text is not None,
          f"{tag} (a valid instruction must not be demoted to data)")
        P("hooks:info-accepts=>llil-accepts", s_il == "ok" and il_len is not None, tag)
        if s_text == "ok" and text is not None:
            toks, tlen = text
            P("hooks:text-length=info-length", tlen == info.length, tag)
            if outcome == "ok":
                P("hooks:text-mnemonic", len(toks) > 0 and toks[0].text == instr.name(), f"{tag}: first token vs {instr.name()}")
        if s_il == "ok" and il_len is not None:
            P("hooks:llil-length=info-length", il_len == info.length, tag)
    # ---- emulator fetch path (full-length buffers only: memory has no end)
    if L == FULL:
        sm = SymMem("mem", eng)
        base = 0x1000
        for i, x in enumerate(data.items):
            sm.preload(base + i, x)
        emu = EMU.Emulator(EMU.Memory(sm.read, sm.write), reset_on_init=False)
        s_f, fi = hook(lambda: emu.decode_instruction(base))
        P("fetch:no-exception", s_f == "ok", f"{tag}: {fi!r}" if s_f != "ok" else tag)
        if s_f == "ok":
            if accepted and outcome == "ok":
                P("fetch:same-name-and-length", fi.name() == instr.name() and fi.length() == instr.length(),
                  f"{tag}: fetch {fi.name()}/{fi.length()} vs {instr.name()}/{instr.length()}")
            if outcome in ("reject", "assert", "invalid"):
                P("fetch:placeholder-when-rejected", fi.name() == f"UNK_{lead[0]:02X}" and fi.length() == 1,
                  f"{tag}: got {fi.name()}/{fi.length()}")
        # decoding is a function of the bytes now in memory, not of what the same Emulator decoded
        # before: a second Emulator first decodes a known program at the same addresses (history),
        # then the code is overwritten with this unit's bytes and decoded again without executing
        # anything in between; the result must be the one a fresh Emulator gives
        sm2 = SymMem("mem2", eng)
        for k, x in enumerate((0x08, 0x55, 0x00, 0x00, 0x00, 0x00, 0x00, 0x00, 0x00, 0x00)):   # MV A,55 ; NOP ...
            sm2.preload(base + k, x)
        emu2 = EMU.Emulator(EMU.Memory(sm2.read, sm2.write), reset_on_init=False)
        for at in (base, base + 1, base + 2):
            hook(lambda: emu2.decode_instruction(at))
        for i, x in enumerate(data.items):
            sm2.write(base + i, x)
        s_h, hi = hook(lambda: emu2.decode_instruction(base))
        if s_f == "ok":
            P("fetch:after-history", s_h == "ok" and hi.name() == fi.name() and hi.length() == fi.length(),
              f"{tag}: an Emulator that decoded 'MV A,55; NOP' at {base:#x} before decodes these bytes as "
              f"{hi.name() + '/' + str(hi.length()) if s_h == 'ok' else repr(hi)}, a fresh one as {fi.name()}/{fi.length()}")
    # ---- emulator fetch at other addresses: an arbitrary 20-bit address whose 8 bytes lie inside the 1 MiB space (symbolic),
    #      the address at which the instruction ends exactly on the last byte of that space, and 0xFFFFF (the bytes after the
    #      first come from the internal-memory window): same verdict as at the fixed base
    if L == FULL and s_f == "ok":
        fsym = eng.fresh("fetch_base", 20)
        eng.assume(T(fsym) + FULL <= 0x100000)
        bases = [("any", fsym), ("last-byte", 0xFFFFF)]
        if accepted and outcome == "ok":
            bases.insert(1, ("top-aligned", 0x100000 - instr.length()))
        for bi, (btag, fbase) in enumerate(bases):
            sm3 = SymMem(f"mem3_{bi}", eng)
            for i, x in enumerate(data.items):
                eng.add(z3.Select(sm3.init, T(fbase) + i) == z3.Extract(7, 0, T(x)))
            emu3 = EMU.Emulator(EMU.Memory(sm3.read, sm3.write), reset_on_init=False)
            s_a, ai = hook(lambda: emu3.decode_instruction(fbase))
            P(f"fetch:{btag}-address:no-exception", s_a == "ok", f"{tag}: {ai!r}" if s_a != "ok" else tag)
            if s_a != "ok":
                continue
            an, same_name = ai.name(), None
            m = re.fullmatch(r"(.*)(<sym#\d+:02[Xx]>)(.*)", an)
            if m and m.group(2) in eng.placeholders and fi.name().startswith(m.group(1)) and len(fi.name()) == len(m.group(1)) + 2 + len(m.group(3)):
                # a name such as UNK_xx / PRExx printed from a byte fetched through the array: the digits are that byte's
                digits = fi.name()[len(m.group(1)):len(m.group(1)) + 2]
                if fi.name().endswith(m.group(3)) and re.fullmatch(r"[0-9A-Fa-f]{2}", digits):
                    same_name = SymBool(T(eng.placeholders[m.group(2)][0]) == int(digits, 16))
            if same_name is None:
                same_name = an == fi.name()
            P(f"fetch:{btag}-address:same-name-and-length", core.and_(same_name, ai.length() == fi.length()),
              f"{tag}: fetched at {'a symbolic address' if btag == 'any' else hex(fbase)} the bytes decode as {ai.name()}/{ai.length()}, at {base:#x} as {fi.name()}/{fi.length()}")
    # ---- truncated buffers: with fewer bytes than its length the instruction is rejected cleanly,
    #      with at least its length the result is the same (trailing bytes do not matter)
    if L == FULL and want == "C01":
        for cut in range(0, FULL):
            s_c, ic = hook(lambda: arch.get_instruction_info(SymBuf(data.items[:cut]), addr))
            P(f"truncated:{cut}:no-exception", s_c == "ok", f"{tag}: {ic!r}" if s_c != "ok" else tag)
            if s_c != "ok":
                continue
            if accepted and outcome == "ok":
                n = instr.length()
                if cut >= n:
                    P(f"truncated:{cut}:same-result", ic is not None and ic.length == n, f"{tag}: first {cut} bytes of an instruction of length {n}")
                else:
                    P(f"truncated:{cut}:rejected", ic is None, f"{tag}: first {cut} bytes of an instruction of length {n}")
            elif ic is not None:
                # a longer buffer was rejected although this prefix of it is accepted: then the
                # accepted prefix must be a complete instruction on its own (checked by its own unit);
                # here only: its length fits
                P(f"truncated:{cut}:length-fits", ic.length <= cut, tag)
    # ---- history independence: shared templates and module state untouched
    P("templates-unchanged", _snapshot_templates(OPCODES) == tpl0, f"{tag}: OPCODES operand templates mutated by decoding")
    # ---- C02: encode is the inverse of decode
    if want == "C02" and outcome == "ok" and accepted:
        n = instr.length()
        s_e, enc = hook(lambda: OPC.encode(instr, addr))
        P("encode:no-exception", s_e == "ok", f"{tag}: {enc!r}" if s_e != "ok" else tag)
        if s_e == "ok":
            P("encode:length", len(enc) == n, f"{tag}: {len(enc)} vs {n}")
            if len(enc) == n:
                for i in range(n):
                    P(f"encode:byte{i}", T(enc[i]) == T(data.items[i]), f"{tag}: byte {i} of encode(decode(b)) (don't-care bits included)")
                s_r, re_i = hook(lambda: OPC.decode(SymBuf(list(enc)), addr, OPCODES))
                P("redecode:accepted", s_r == "ok" and re_i is not None, tag)
                if s_r == "ok" and re_i is not None:
                    P("redecode:length", re_i.length() == n, tag)
                    t1, t2 = asm_str(instr.render()), asm_str(re_i.render())
                    P("redecode:same-text", struct_eq(t1, t2, eng), f"{tag}: {t1} vs {t2}")
                    il1, il2 = ILF(), ILF()
                    s1, _ = hook(lambda: instr.lift(il1, addr))
                    s2, _ = hook(lambda: re_i.lift(il2, addr))
                    P("redecode:same-il", s1 == s2 and struct_eq(_il_plain(il1.ils), _il_plain(il2.ils), eng), tag)
    return outcome + ("+accepted" if accepted else "")


def _il_plain(nodes):
    """IL node list -> nested tuples; labels are compared by position, not identity."""
    labels = {}

    def lab(x):
        return labels.setdefault(id(x), len(labels))

    def go(n):
        cls = type(n).__name__
        if cls == "MockLabel":
            return ("LABEL", lab(n.label))
        if cls == "MockGoto":
            return ("GOTO", lab(n.label))
        if cls == "MockIfExpr":
            return ("IF", go(n.cond), lab(n.t), lab(n.f))
        if cls == "MockIntrinsic":
            return ("INTRINSIC", str(n.name))
        if hasattr(n, "op") and hasattr(n, "ops"):
            return (n.op, [go(x) for x in n.ops])
        if cls in ("MockReg", "MockFlag"):
            return (cls, n.name)
        if cls == "LowLevelILLabel":
            return ("L", lab(n))
        return n

    return [go(n) for n in nodes]


def unit(unit):
    t0 = time.time()
    b0, b1, L, want = unit["b0"], unit.get("b1"), unit["L"], unit.get("want", "C01")
    run = core.Run(max_paths=unit.get("max_paths", 6000), wall_s=unit.get("wall_s", 400))
    status, err = "ok", None
    try:
        core.explore(lambda eng: run_path(eng, b0, b1, L, want), run=run)
    except core.Undecided as e:
        status, err = "undecided", str(e)
    except core.EngineError as e:
        status, err = "engine-error", str(e)
    kinds = {}
    for _, r in run.results:
        kinds[r] = kinds.get(r, 0) + 1
    obs = run.obligations
    by = {}
    for o in obs:
        if o.status == "proved":
            by[o.backend] = by.get(o.backend, 0) + 1
    return dict(unit=unit, status=status, error=err, kinds=kinds, obligations=len(obs),
                proved=sum(o.status == "proved" for o in obs),
                failed=core.failed_sample(obs, 12),
                nfailed=sum(o.status == "failed" for o in obs), unknown=sum(o.status == "unknown" for o in obs),
                undecided_notes=run.undecided[:5], stats=run.stats.as_dict(), by_backend=by,
                wall_s=round(time.time() - t0, 2))


def _tok_text(tokens):
    """Text of a token list, for the decoder's own tokens (to_binja()/binja() applied) and for Binary Ninja tokens alike."""
    out = []
    for t in tokens:
        for conv in ("binja", "to_binja"):
            f = getattr(t, conv, None)
            if callable(f):
                try:
                    t = f()
                except Exception:  # noqa: BLE001
                    pass
                break
        out.append(getattr(t, "text", None) if getattr(t, "text", None) is not None else str(t))
    return "".join(out)


def unit_hooks_history(unit):
    """Bounded companion (concrete byte strings; caches keyed on part of the bytes hash their key, which a
    symbolic byte string cannot follow): the three architecture callbacks are called on a byte string s'
    and then on a string s that shares the first k bytes with s' (k = 1..len) but differs afterwards; the
    results for s must be what the plain decoder says about s alone: same acceptance, length, rendered text,
    lifted IL, and the text callback's round-trip guard must not demote it."""
    import random
    ARCH, EMU, OPC, OPCODES, asm_str, ILF = _setup()
    t0 = time.time()
    rng = random.Random(unit.get("seed", 0) * 7919 + unit["b0"])
    arch = ARCH.SC62015()
    obs = []
    b0 = unit["b0"]
    addr = 0x1000

    def direct(data):
        try:
            ins = OPC.decode(bytes(data), addr, OPCODES)
        except Exception:  # noqa: BLE001
            return None
        if ins is None:
            return None
        il = ILF(arch)
        try:
            ins.lift(il, addr)
            iltxt = repr(_il_plain(il.ils))
        except Exception as e:  # noqa: BLE001
            iltxt = "lift-raises:" + type(e).__name__
        return dict(length=ins.length(), text=asm_str(ins.render()), il=iltxt)

    def hooks(data):
        data = bytes(data)
        out = {}
        try:
            info = arch.get_instruction_info(data, addr)
            out["info"] = None if info is None else info.length
        except Exception as e:  # noqa: BLE001
            out["info"] = "raises:" + type(e).__name__
        try:
            r = arch.get_instruction_text(data, addr)
            out["text"] = None if r is None else (_tok_text(r[0]), r[1])
        except Exception as e:  # noqa: BLE001
            out["text"] = "raises:" + type(e).__name__
        il = ILF(arch)
        try:
            n = arch.get_instruction_low_level_il(data, addr, il)
            out["il"] = None if n is None else (n, repr(_il_plain(il.ils)))
        except Exception as e:  # noqa: BLE001
            out["il"] = "raises:" + type(e).__name__
        return out

    n = unit.get("samples", 6) * (3 if b0 in PRE_BYTES else 1)
    for sidx in range(n):
        body = [b0] + [rng.choice([0x00, 0x04, 0x24, 0x80, 0xC0, 0x10, 0x20, 0xFF, rng.randrange(256)]) for _ in range(FULL - 1)]
        if b0 in PRE_BYTES:
            # behind a prefix: cycle through the opcodes with the longest encodings (6 bytes with the prefix)
            longest = [0xF0, 0xF8, 0xDC, 0xF1, 0xFB, 0xD0, 0xF2, 0xF9, 0x62, 0xF3, 0xFA, 0x72, 0xD8, 0xC8, 0x54, 0xC0]
            body[1] = longest[sidx % len(longest)]
            body[2] = (0x80, 0xC0)[sidx % 2] if body[1] >= 0xF0 else body[2]
        want = direct(body)
        if unit.get('debug'):
            print(bytes(body).hex(), want and (want['length'], want['text']))
        ln = want["length"] if want else rng.randrange(2, FULL)
        # longest shared prefix first: a cache keyed on any leading part of the bytes is then first filled by the history string
        for k in range(min(ln, FULL - 1), 0, -1):
            other = list(body)
            pos = min(k, FULL - 1) if k < ln else ln - 1
            other[pos] ^= rng.randrange(1, 256)
            for j in range(pos + 1, FULL):
                if rng.random() < 0.5:
                    other[j] = rng.randrange(256)
            hooks(other)                       # the history
            got = hooks(body)
            ok = True
            why = ""
            if want is None:
                ok = got["info"] is None or isinstance(got["info"], str) is False and got["info"] is None
                if got["info"] not in (None,):
                    ok, why = False, f"plain decode rejects, info callback says {got['info']}"
            else:
                if got["info"] != want["length"]:
                    ok, why = False, f"info length {got['info']} vs decoder {want['length']}"
                elif got["text"] is None or isinstance(got["text"], str) or got["text"][0] != want["text"] or got["text"][1] != want["length"]:
                    ok, why = False, f"text callback {got['text']} vs decoder ({want['text']!r}, {want['length']})"
                elif not want["il"].startswith("lift-raises") and (got["il"] is None or isinstance(got["il"], str) or got["il"][0] != want["length"] or got["il"][1] != want["il"]):
                    ok, why = False, f"IL callback differs from lifting the decoded instruction (length {None if not isinstance(got['il'], tuple) else got['il'][0]} vs {want['length']})"
            obs.append(core.Obligation(f"hooks:after-history-sharing-{k}-bytes", "proved" if ok else "failed", backend="enumeration",
                                       detail=None if ok else f"{bytes(body).hex()} after {bytes(other).hex()}: {why}",
                                       model=None if ok else dict(bytes=bytes(body).hex(), history=bytes(other).hex())))
    return dict(unit=unit, status="ok", error=None, kinds={"samples": n}, obligations=len(obs),
                proved=sum(o.status == "proved" for o in obs), failed=core.failed_sample(obs, 6),
                nfailed=sum(o.status == "failed" for o in obs), unknown=0, undecided_notes=[], stats=dict(paths=0, queries=0, solver_s=0.0),
                by_backend={"enumeration": sum(o.status == "proved" for o in obs)}, wall_s=round(time.time() - t0, 2), bounded=True)


def replay_hooks_history(body):
    """Native replayer: the history string and then the string under test through the three callbacks of a
    real SC62015 object, compared with the plain decoder."""
    from binja_test_mocks import binja_api  # noqa: F401
    from sc62015 import arch as ARCH
    from sc62015.pysc62015.instr import opcodes as OPC
    from sc62015.pysc62015.instr.opcode_table import OPCODES
    from binja_test_mocks.tokens import asm_str
    m = body.get("model") or {}
    if "bytes" not in m:
        return 4, "no byte strings recorded"
    s, h = bytes.fromhex(m["bytes"]), bytes.fromhex(m["history"])
    arch = ARCH.SC62015()
    addr = 0x1000
    try:
        ins = OPC.decode(s, addr, OPCODES)
    except Exception:  # noqa: BLE001
        ins = None
    for f in (arch.get_instruction_info, arch.get_instruction_text):
        try:
            f(h, addr)
        except Exception:  # noqa: BLE001
            pass
    info = arch.get_instruction_info(s, addr)
    text = arch.get_instruction_text(s, addr)
    if ins is None:
        return (1, f"{s.hex()}: decoder rejects, info callback accepts after history {h.hex()}") if info is not None else (0, "agree")
    probs = []
    if info is None or info.length != ins.length():
        probs.append(f"info {None if info is None else info.length} vs decoder length {ins.length()}")
    if text is None or _tok_text(text[0]) != asm_str(ins.render()) or text[1] != ins.length():
        probs.append(f"text {None if text is None else (_tok_text(text[0]), text[1])} vs decoder ({asm_str(ins.render())!r}, {ins.length()})")
    if probs:
        return 1, f"{s.hex()} after history {h.hex()}: " + "; ".join(probs)
    return 0, f"{s.hex()} after history {h.hex()}: callbacks agree with the plain decoder"
