"""C15: HD61202 protocol contracts and the VRAM-bit -> pixel map (Python model)."""
from __future__ import annotations

import time

import z3

from symx import core, astpass
from symx.core import T, W, SymInt, SymBool


# --------------------------------------------------------------------------- containers
class SymGrid:
    """Contract of `list of 8 lists of 64 ints` (HD61202.vram) over a z3 array, so that
    vram[page][col] works for symbolic page/col without enumerating 512 cells."""

    def __init__(self, name, rows=8, cols=64):
        self.rows, self.cols = rows, cols
        self.arr = z3.Array(name, z3.BitVecSort(W), z3.BitVecSort(8))
        self.init = self.arr

    def _idx(self, p, c):
        return T(p) * self.cols + T(c)

    def get(self, p, c, arr=None):
        return z3.Select(self.arr if arr is None else arr, self._idx(p, c))

    def __getitem__(self, p):
        if isinstance(p, int) and not 0 <= p < self.rows:
            raise IndexError("list index out of range")
        if isinstance(p, SymInt):
            core._require(z3.And(p.t >= 0, p.t < self.rows), "vram page index out of range")
        return _Row(self, p)

    def __len__(self):
        return self.rows

    def __iter__(self):
        return (_Row(self, p) for p in range(self.rows))


class _Row:
    def __init__(self, grid, p):
        self.g, self.p = grid, p

    def _chk(self, c):
        if isinstance(c, int) and not 0 <= c < self.g.cols:
            raise IndexError("list index out of range")
        if isinstance(c, SymInt):
            core._require(z3.And(c.t >= 0, c.t < self.g.cols), "vram column index out of range")

    def __getitem__(self, c):
        self._chk(c)
        v = z3.Select(self.g.arr, self.g._idx(self.p, c))
        vs = z3.simplify(v)
        return vs.as_long() if z3.is_bv_value(vs) else SymInt(z3.ZeroExt(W - 8, v), 0, 255)

    def __setitem__(self, c, v):
        self._chk(c)
        if isinstance(v, int) and not 0 <= v <= 255:
            self.g.wide = True
        self.g.arr = z3.Store(self.g.arr, self.g._idx(self.p, c), z3.Extract(7, 0, T(v)))

    def __len__(self):
        return self.g.cols

    def __iter__(self):
        return (self[c] for c in range(self.g.cols))


class _Sink:
    """vram_pc_source: provenance only, never read by the contracts."""

    def __getitem__(self, i):
        return self

    def __setitem__(self, i, v):
        pass


# --------------------------------------------------------------------------- helpers
def _report(run, unit, t0, status="ok", err=None, kinds=None):
    obs = run.obligations
    by = {}
    for o in obs:
        if o.status == "proved":
            by[o.backend] = by.get(o.backend, 0) + 1
    return dict(unit=unit, status=status, error=err, kinds=kinds or {}, obligations=len(obs),
                proved=sum(o.status == "proved" for o in obs),
                failed=core.failed_sample(obs, 12),
                nfailed=sum(o.status == "failed" for o in obs), unknown=sum(o.status == "unknown" for o in obs),
                undecided_notes=run.undecided[:5], stats=run.stats.as_dict(), by_backend=by,
                wall_s=round(time.time() - t0, 2))


def _explore(body, unit, **kw):
    t0 = time.time()
    run = core.Run(max_paths=kw.get("max_paths", 6000), wall_s=kw.get("wall_s", 400))
    status, err = "ok", None
    try:
        core.explore(body, run=run)
    except core.Undecided as e:
        status, err = "undecided", str(e)
    except core.EngineError as e:
        status, err = "engine-error", str(e)
    kinds = {}
    for _, r in run.results:
        kinds[str(r)] = kinds.get(str(r), 0) + 1
    return _report(run, unit, t0, status, err, kinds)


def _setup():
    from symx import env
    env.setup(extra=["pce500.display.hd61202", "pce500.display.pipeline", "pce500.display.controller_wrapper"])
    import pce500.display.hd61202 as HD
    import pce500.display.controller_wrapper as CW
    import pce500.display.pipeline as PL
    return HD, CW, PL


def _sym_chip(eng, HD, tag):
    chip = HD.HD61202()
    chip.vram = SymGrid(f"vram{tag}")
    chip.vram_pc_source = _Sink()
    st = dict(on=eng.fresh_bool(f"on{tag}"), busy=eng.fresh_bool(f"busy{tag}"),
              start_line=eng.fresh(f"sl{tag}", 6), page=eng.fresh(f"pg{tag}", 3), y=eng.fresh(f"y{tag}", 6))
    chip.state.on, chip.state.busy = st["on"], st["busy"]
    chip.state.start_line, chip.state.page, chip.state.y_address = st["start_line"], st["page"], st["y"]
    return chip, st


def _chip_unchanged(eng, name, chip, st, grid_init):
    P = lambda n, c: eng.prove(n, core._b(c))
    P(name + ":state", core.and_(_beq(chip.state.on, st["on"]), _beq(chip.state.busy, st["busy"]),
                                 chip.state.start_line == st["start_line"], chip.state.page == st["page"],
                                 chip.state.y_address == st["y"]))
    k = z3.BitVec("k!cell", W)
    P(name + ":vram", SymBool(z3.Select(chip.vram.arr, k) == z3.Select(grid_init, k)))


def _beq(a, b):
    return SymBool(core._b(a) == core._b(b))


def _snapshot_agrees(eng, name, ctl):
    """HD61202Controller.get_snapshot() (an observation point of the property) shows the live chips."""
    snap = ctl.get_snapshot()
    conds = []
    for i, chip in enumerate(ctl.chips):
        s = snap.chips[i]
        conds += [_beq(s.on, chip.state.on), s.start_line == chip.state.start_line, s.page == chip.state.page,
                  s.y_address == chip.state.y_address]
        cells = []
        for p in range(8):
            for col in range(64):
                cells.append(T(s.vram[p][col]) & 0xFF == z3.ZeroExt(W - 8, z3.Select(chip.vram.arr, z3.BitVecVal(p * 64 + col, W))))
        conds.append(SymBool(z3.And(cells)))
    eng.prove(name, core._b(core.and_(*conds)), detail="get_snapshot() after this access reports on/start line/page/column/VRAM of both chips as they are now")


# --------------------------------------------------------------------------- units
def unit_decode(unit):
    """decode_access / parse_command for every address in both LCD windows and every value."""
    HD, CW, PL = _setup()

    def body(eng):
        lo = eng.fresh("lo12", 12)
        win = eng.fresh("win", 1)
        addr = core.ite(win == 0, 0x2000, 0xA000) | lo
        val = eng.fresh("val", 8)
        r = HD.decode_access(addr)
        rw_bit, di_bit, cs_bits = lo & 1, (lo >> 1) & 1, (lo >> 2) & 3
        P = lambda n, c, d=None: eng.prove(n, core._b(c), detail=d)
        if r is None:
            P("decode:none-iff-cs-none", cs_bits == 3, "inside the windows only chip-select 0b11 decodes to nothing")
            return "none"
        cs, di, rw = r
        P("decode:cs", cs_bits == cs.value, "CS = address bits 3:2 (00 both, 01 right, 10 left)")
        P("decode:cs-not-none", cs_bits != 3)
        P("decode:di", di_bit == di.value, "D/I = address bit 1")
        P("decode:rw", rw_bit == (1 if rw == HD.ReadWrite.READ else 0), "R/W = address bit 0")
        if rw == HD.ReadWrite.WRITE:
            cmd = HD.parse_command(addr, val)
            P("parse:cs", cmd.cs is cs)
            if di == HD.DataInstruction.DATA:
                P("parse:data", core.and_(cmd.instr is None, cmd.data == val))
            else:
                P("parse:instr", cmd.instr is not None and (val >> 6) == cmd.instr.value, "instruction = value bits 7:6")
                want = val & 0x3F
                if cmd.instr == HD.Instruction.ON_OFF:
                    want = val & 1
                elif cmd.instr == HD.Instruction.SET_PAGE:
                    want = val & 7
                P("parse:instr-data", cmd.data == want, "on/off: bit 0; page: bits 2:0; start line / column: bits 5:0")
        else:
            try:
                HD.parse_command(addr, val)
                P("parse:read-address-rejected", False)
            except ValueError:
                P("parse:read-address-rejected", True)
        return f"{cs.name}/{di.name}/{rw.name}"

    return _explore(body, unit)


def unit_outside(unit):
    """decode_access outside both windows (any 32-bit address whose bits 15:12 are not 2 / A)."""
    HD, CW, PL = _setup()

    def body(eng):
        addr = eng.fresh("addr", 32)
        eng.assume(z3.And((T(addr) & 0xF000) != 0x2000, (T(addr) & 0xF000) != 0xA000))
        eng.prove("decode:outside-window-is-none", z3.BoolVal(HD.decode_access(addr) is None))
        return "outside"

    return _explore(body, unit)


def unit_chip(unit):
    """One HD61202 chip operation on an arbitrary valid state and arbitrary VRAM."""
    HD, CW, PL = _setup()
    op = unit["op"]

    def body(eng):
        chip, st = _sym_chip(eng, HD, "")
        g0 = chip.vram.init
        P = lambda n, c, d=None: eng.prove(n, core._b(c), detail=d)
        k = z3.BitVec("k!cell", W)
        eng.inputs.setdefault("k!cell", k)
        cell = lambda arr, p, c: z3.Select(arr, T(p) * 64 + T(c))
        if op == "write_data":
            d = eng.fresh("d", 8)
            chip.write_data(d, pc_source=None)
            P("wd:stores-at-page-column", SymBool(cell(chip.vram.arr, st["page"], st["y"]) == z3.Extract(7, 0, T(d))))
            P("wd:only-that-cell", SymBool(z3.Implies(k != T(st["page"]) * 64 + T(st["y"]), z3.Select(chip.vram.arr, k) == z3.Select(g0, k))))
            P("wd:column-post-increments-mod-64", chip.state.y_address == (st["y"] + 1) % 64)
            P("wd:page-start-on-unchanged", core.and_(chip.state.page == st["page"], chip.state.start_line == st["start_line"], _beq(chip.state.on, st["on"])))
            P("wd:busy-set", _beq(chip.state.busy, True))
        elif op == "read_data":
            r = chip.read_data()
            P("rd:returns-previous-column", SymBool(z3.Extract(7, 0, T(r)) == cell(g0, st["page"], (st["y"] + 63) % 64)))
            P("rd:column-post-increments-mod-64", chip.state.y_address == (st["y"] + 1) % 64)
            P("rd:vram-unchanged", SymBool(z3.Select(chip.vram.arr, k) == z3.Select(g0, k)))
            P("rd:rest-unchanged", core.and_(chip.state.page == st["page"], chip.state.start_line == st["start_line"], _beq(chip.state.on, st["on"]), _beq(chip.state.busy, st["busy"])))
        elif op == "read_status":
            r = chip.read_instruction_status()
            want = core.ite(st["busy"], 0x80, 0) | core.ite(st["on"], 0, 0x20)
            P("rs:value", r == want, "bit 7 busy, bit 5 display off")
            P("rs:clears-busy", _beq(chip.state.busy, False))
            P("rs:rest-unchanged", core.and_(chip.state.page == st["page"], chip.state.y_address == st["y"], chip.state.start_line == st["start_line"], _beq(chip.state.on, st["on"])))
            P("rs:vram-unchanged", SymBool(z3.Select(chip.vram.arr, k) == z3.Select(g0, k)))
        else:
            ins = HD.Instruction[op]
            d = eng.fresh("d", 6)
            if ins == HD.Instruction.ON_OFF:
                d = d & 1
            elif ins == HD.Instruction.SET_PAGE:
                d = d & 7
            chip.write_instruction(ins, d)
            want = dict(on=st["on"], start_line=st["start_line"], page=st["page"], y=st["y"])
            if ins == HD.Instruction.ON_OFF:
                want["on"] = (d & 1) == 1
            elif ins == HD.Instruction.START_LINE:
                want["start_line"] = d
            elif ins == HD.Instruction.SET_PAGE:
                want["page"] = d
            else:
                want["y"] = d
            P(f"wi:{op}:effect", core.and_(_beq(chip.state.on, want["on"]), chip.state.start_line == want["start_line"],
                                            chip.state.page == want["page"], chip.state.y_address == want["y"]))
            P(f"wi:{op}:busy-set", _beq(chip.state.busy, True))
            P(f"wi:{op}:vram-unchanged", SymBool(z3.Select(chip.vram.arr, k) == z3.Select(g0, k)))
        # representation invariant preserved
        P("invariant", core.and_(chip.state.page >= 0, chip.state.page < 8, chip.state.y_address >= 0, chip.state.y_address < 64,
                                 chip.state.start_line >= 0, chip.state.start_line < 64))
        return op

    return _explore(body, unit)


def unit_route(unit):
    """HD61202Controller.write/read: chip-select routing; the unselected chip is untouched."""
    HD, CW, PL = _setup()
    kind = unit["kind"]

    def body(eng):
        ctl = CW.HD61202Controller()
        sts, g0 = [], []
        for i in range(2):
            chip, st = _sym_chip(eng, HD, str(i))
            ctl.pipeline._chips[i] = chip
            sts.append(st)
            g0.append(chip.vram.init)
        ctl.chips = ctl.pipeline.chips
        lo = eng.fresh("lo4", 4)
        mid = eng.fresh("mid8", 8)
        win = eng.fresh("win", 1)
        addr = core.ite(win == 0, 0x2000, 0xA000) | (mid << 4) | lo
        cs_bits, di_bit, rw_bit = (lo >> 2) & 3, (lo >> 1) & 1, lo & 1
        P = lambda n, c, d=None: eng.prove(n, core._b(c), detail=d)
        if kind == "write":
            val = eng.fresh("val", 8)
            eng.assume(core._b(rw_bit == 0))
            ctl.get_snapshot()
            # reference: what the selected chips must look like afterwards (contracts of unit_chip)
            ctl.write(addr, val)
            cs = int(cs_bits)     # enumerates the four decodings
            sel = {0: (0, 1), 1: (1,), 2: (0,), 3: ()}[cs]
            for i in range(2):
                chip = ctl.chips[i]
                if i not in sel:
                    _chip_unchanged(eng, f"route:write:cs{cs}:chip{i}-untouched", chip, sts[i], g0[i])
                else:
                    st = sts[i]
                    if bool(di_bit == 1):
                        P(f"route:write:cs{cs}:chip{i}:data-stored", SymBool(z3.Select(chip.vram.arr, T(st["page"]) * 64 + T(st["y"])) == z3.Extract(7, 0, T(val))))
                        P(f"route:write:cs{cs}:chip{i}:column", chip.state.y_address == (st["y"] + 1) % 64)
                        P(f"route:write:cs{cs}:chip{i}:busy", _beq(chip.state.busy, True), "every write raises the busy flag")
                    else:
                        ins = int(val >> 6)
                        want = dict(on=st["on"], sl=st["start_line"], pg=st["page"], y=st["y"])
                        if ins == 0:
                            want["on"] = (val & 1) == 1
                        elif ins == 3:
                            want["sl"] = val & 0x3F
                        elif ins == 2:
                            want["pg"] = val & 7
                        else:
                            want["y"] = val & 0x3F
                        P(f"route:write:cs{cs}:chip{i}:instruction", core.and_(_beq(chip.state.on, want["on"]), chip.state.start_line == want["sl"],
                                                                            chip.state.page == want["pg"], chip.state.y_address == want["y"]))
                        P(f"route:write:cs{cs}:chip{i}:busy", _beq(chip.state.busy, True), "every write raises the busy flag (status bit 7 on the next status read)")
                        k = z3.BitVec("k!cell", W)
                        P(f"route:write:cs{cs}:chip{i}:vram-unchanged", SymBool(z3.Select(chip.vram.arr, k) == z3.Select(g0[i], k)))
            _snapshot_agrees(eng, f"route:write:cs{cs}:snapshot-is-current", ctl)
            return f"write cs={cs}"
        else:
            eng.assume(core._b(rw_bit == 1))
            ctl.get_snapshot()          # an earlier observation must not be what a later one reports
            r = ctl.read(addr)
            cs = int(cs_bits)
            _snapshot_agrees(eng, f"route:read:cs{cs}:snapshot-is-current", ctl)
            if cs in (0, 3):
                P(f"route:read:cs{cs}:no-value", r is None, "reads with both / no chip selected return nothing")
                for i in range(2):
                    _chip_unchanged(eng, f"route:read:cs{cs}:chip{i}-untouched", ctl.chips[i], sts[i], g0[i])
                return f"read cs={cs}"
            i = 0 if cs == 2 else 1
            st = sts[i]
            _chip_unchanged(eng, f"route:read:cs{cs}:chip{1 - i}-untouched", ctl.chips[1 - i], sts[1 - i], g0[1 - i])
            if bool(di_bit == 1):
                P(f"route:read:cs{cs}:data", SymBool(z3.Extract(7, 0, T(r)) == z3.Select(g0[i], T(st["page"]) * 64 + T((st["y"] + 63) % 64))))
            else:
                P(f"route:read:cs{cs}:status", r == (core.ite(st["busy"], 0x80, 0) | core.ite(st["on"], 0, 0x20)))
            return f"read cs={cs}"

    return _explore(body, unit)


def unit_write_outside(unit):
    """Controller.write / read at an address outside the windows or with CS=none change nothing."""
    HD, CW, PL = _setup()

    def body(eng):
        ctl = CW.HD61202Controller()
        sts, g0 = [], []
        for i in range(2):
            chip, st = _sym_chip(eng, HD, str(i))
            ctl.pipeline._chips[i] = chip
            sts.append(st)
            g0.append(chip.vram.init)
        ctl.chips = ctl.pipeline.chips
        addr = eng.fresh("addr", 32)
        eng.assume(z3.Or(z3.And((T(addr) & 0xF000) != 0x2000, (T(addr) & 0xF000) != 0xA000), (T(addr) & 0xC) == 0xC))
        ctl.write(addr, eng.fresh("val", 8))
        r = ctl.read(addr)
        eng.prove("outside:read-none", z3.BoolVal(r is None))
        for i in range(2):
            _chip_unchanged(eng, f"outside:chip{i}-untouched", ctl.chips[i], sts[i], g0[i])
        return "outside"

    return _explore(body, unit)


class _Grid2:
    def __init__(self, shape):
        self.r, self.c = shape
        self.cells = [[0] * self.c for _ in range(self.r)]

    def __setitem__(self, rc, v):
        self.cells[rc[0]][rc[1]] = v

    def __getitem__(self, rc):
        return self.cells[rc[0]][rc[1]]


class _NP:
    """Container contract for the two numpy names get_display_buffer uses."""
    uint8 = "uint8"
    ndarray = object

    @staticmethod
    def zeros(shape, dtype=None):
        return _Grid2(shape)


def documented_source(r, c):
    """Documented panel layout (docstring of hd61202.render_combined_image; Rust twin
    lcd.rs:map_chip_col_to_display_col): left half = right chip columns 0-63 then left chip columns
    0-55 (pages 0-3); right half = left chip 55..0 then right chip 63..0 of pages 4-7 (mirrored).
    Returns (chip index, page, column, bit); chip 0 = left, 1 = right."""
    pg, bit = r // 8, r % 8
    if c < 64:
        return (1, pg, c, bit)
    if c < 120:
        return (0, pg, c - 64, bit)
    if c < 176:
        return (0, 4 + pg, 55 - (c - 120), bit)
    return (1, 4 + pg, 63 - (c - 176), bit)


def unit_pixels(unit):
    """get_display_buffer with every VRAM byte symbolic: each of the 32x240 cells is `1 - bit` of
    exactly one VRAM bit, the map is injective, and hence one data write changes at most the
    eight cells of one display column."""
    HD, CW, PL = _setup()
    on = unit["on"]       # (left_on, right_on)
    t0 = time.time()
    run = core.Run()
    res = {}

    def body(eng):
        ctl = CW.HD61202Controller()
        vs = {}
        for ci, chip in enumerate(ctl.chips):
            chip.state.on = on[ci]
            for p in range(8):
                for c in range(64):
                    v = z3.BitVec(f"v_{ci}_{p}_{c}", 8)
                    vs[(ci, p, c)] = v
                    chip.vram[p][c] = SymInt(z3.ZeroExt(W - 8, v), 0, 255)
        fn = astpass.rebuild(CW.HD61202Controller.get_display_buffer, [astpass.Merge()], extra_globals={"np": _NP})
        try:
            buf = fn(ctl)
        except core.EngineSignal:
            raise
        except Exception as e:  # noqa: BLE001 - the numpy container contract does not cover this implementation
            raise core.Unsupported(f"get_display_buffer outside the container contract for numpy: {type(e).__name__}: {e}")
        res["buf"], res["vs"] = buf, vs
        return "pixels"

    status, err = "ok", None
    try:
        core.explore(body, run=run)
    except core.Undecided as e:
        status, err = "undecided", str(e)
    obs = run.obligations
    if status == "ok" and len(run.results) != 1:
        status, err = "undecided", f"display stitching forked into {len(run.results)} paths"
    if status == "ok":
        buf, vs = res["buf"], res["vs"]
        inv = {v.get_id(): key for key, v in vs.items()}
        seen = {}
        n_dark = 0
        for r in range(32):
            for c in range(240):
                t = z3.simplify(T(buf[r, c]))
                srcs = set()
                stack = [t]
                while stack:
                    e = stack.pop()
                    if z3.is_const(e) and e.decl().kind() == z3.Z3_OP_UNINTERPRETED:
                        srcs.add(e.get_id())
                    stack.extend(e.children())
                name = f"pixel[{r},{c}]"
                if not srcs:
                    # a chip that is off leaves its region dark (constant 0)
                    ok = z3.is_bv_value(t) and t.as_long() == 0
                    n_dark += 1
                    obs.append(core.Obligation(name + ":dark-when-off", "proved" if ok else "failed", backend="evaluation",
                                               detail=None if ok else f"constant {t}"))
                    continue
                if len(srcs) != 1:
                    obs.append(core.Obligation(name + ":one-vram-byte", "failed", backend="evaluation", detail=f"{len(srcs)} bytes"))
                    continue
                key = inv[next(iter(srcs))]
                v = vs[key]
                bit = None
                for k in range(8):
                    want = z3.If(z3.Extract(k, k, v) == 1, z3.BitVecVal(0, W), z3.BitVecVal(1, W))
                    s = z3.Solver()
                    s.add(t != want)
                    if s.check() == z3.unsat:
                        bit = k
                        break
                if bit is None:
                    obs.append(core.Obligation(name + ":is-one-bit", "failed", backend="z3", detail=str(t)[:80]))
                    continue
                src = key + (bit,)
                # documented geometry: row r shows bit r%8 of page (r//8 [+4 for the mirrored lower halves])
                ok_geo = bit == r % 8 and key[1] % 4 == r // 8
                obs.append(core.Obligation(name + ":is-one-bit", "proved", backend="z3"))
                obs.append(core.Obligation(name + ":row-geometry", "proved" if ok_geo else "failed", backend="evaluation",
                                           detail=None if ok_geo else f"source {src}"))
                ok_doc = src == documented_source(r, c)
                obs.append(core.Obligation(name + ":documented-layout", "proved" if ok_doc else "failed", backend="evaluation",
                                           detail=None if ok_doc else f"source {src}, documented {documented_source(r, c)}"))
                if src in seen:
                    obs.append(core.Obligation(name + ":injective", "failed", backend="evaluation", detail=f"same VRAM bit as {seen[src]}"))
                else:
                    seen[src] = (r, c)
                    obs.append(core.Obligation(name + ":injective", "proved", backend="evaluation"))
        # one data write (one byte = 8 bits of one (chip,page,col)) -> at most 8 cells, all in one display column
        bycol = {}
        for (ci, p, c, b), (r, col) in seen.items():
            bycol.setdefault((ci, p, c), set()).add(col)
        worst = max((len(cols) for cols in bycol.values()), default=0)
        obs.append(core.Obligation("write-changes-one-display-column", "proved" if worst <= 1 else "failed", backend="evaluation",
                                   detail=f"max distinct display columns fed by one VRAM byte = {worst}"))
        expect_cells = 32 * (on[1] * 128 + on[0] * 112)
        obs.append(core.Obligation("visible-cell-count", "proved" if len(seen) == expect_cells else "failed", backend="evaluation",
                                   detail=f"{len(seen)} cells driven by VRAM bits, expected {expect_cells}; dark {n_dark}"))
    kinds = {"pixels": len(run.results)}
    return _report(run, unit, t0, status, err, kinds)


def unit_pixels_enum(unit):
    """Bounded stand-in for the pixel map (used for cross-checking and when the symbolic unit is
    undecided): run the real get_display_buffer natively (real numpy) and flip every single VRAM
    bit under several backgrounds; each flip must change exactly one cell, always the same one,
    distinct bits change distinct cells, and one byte feeds one display column."""
    import random
    HD, CW, PL = _setup()
    t0 = time.time()
    obs = []
    rng = random.Random(unit.get("seed", 0))
    on = unit["on"]
    backgrounds = ["zeros", "ones"] + ["rand%d" % i for i in range(unit.get("random_backgrounds", 1))]
    cellmap = {}
    bad = []
    for bg in backgrounds:
        ctl = CW.HD61202Controller()
        for ci, chip in enumerate(ctl.chips):
            chip.state.on = on[ci]
            for p in range(8):
                for c in range(64):
                    chip.vram[p][c] = 0 if bg == "zeros" else 0xFF if bg == "ones" else rng.randrange(256)
        base = [[int(x) for x in row] for row in ctl.get_display_buffer()]
        for ci, chip in enumerate(ctl.chips):
            for p in range(8):
                for c in range(64):
                    old = chip.vram[p][c]
                    for b in range(8):
                        chip.vram[p][c] = old ^ (1 << b)
                        buf = ctl.get_display_buffer()
                        diff = [(r, col) for r in range(32) for col in range(240) if int(buf[r][col]) != base[r][col]]
                        key = (ci, p, c, b)
                        if len(diff) > 1:
                            bad.append(f"{key} changes {len(diff)} cells")
                        elif len(diff) == 1:
                            r, col = diff[0]
                            want_val = 0 if (old ^ (1 << b)) >> b & 1 else 1
                            if int(buf[r][col]) != want_val:
                                bad.append(f"{key} -> cell {diff[0]} not inverted bit")
                            if cellmap.setdefault(key, diff[0]) != diff[0]:
                                bad.append(f"{key} drives different cells under different backgrounds")
                        elif key in cellmap:
                            bad.append(f"{key} drives {cellmap[key]} only under some backgrounds")
                    chip.vram[p][c] = old
    cells = {}
    for key, cell in cellmap.items():
        if cell in cells:
            bad.append(f"cell {cell} driven by {cells[cell]} and {key}")
        cells[cell] = key
    bycol = {}
    for (ci, p, c, b), (r, col) in cellmap.items():
        bycol.setdefault((ci, p, c), set()).add(col)
        if b != r % 8 or p % 4 != r // 8:
            bad.append(f"bit {(ci, p, c, b)} shown at row {r}")
        if documented_source(r, col) != (ci, p, c, b):
            bad.append(f"cell {(r, col)} driven by {(ci, p, c, b)}, documented layout says {documented_source(r, col)}")
    if any(len(v) > 1 for v in bycol.values()):
        bad.append("one VRAM byte feeds more than one display column")
    expect = 32 * (on[1] * 128 + on[0] * 112)
    if len(cells) != expect:
        bad.append(f"{len(cells)} cells driven by VRAM bits, expected {expect}")
    n = len(cellmap) * len(backgrounds)
    obs.append(core.Obligation("pixel-map:single-bit-flips", "proved" if not bad else "failed", backend="enumeration", detail="; ".join(bad[:5]) or None))
    run = core.Run()
    run.obligations = obs
    rep = _report(run, unit, t0, "ok", None, {"flips": n})
    rep["bounded"] = True
    return rep


def unit_any(unit):
    return globals()[unit["fn"]](unit)
