"""C17: ground equalities between the duplicated architecture tables and constants.

Python side: module attributes of the working tree.  Rust side: source text of the crate,
tokenised (comments, whitespace, attributes dropped).  Every obligation is decided by
evaluation; a failing one names both sources and both values."""
from __future__ import annotations

import os
import re
import sys
import time

REPO = os.environ.get("VERIF_REPO", "/repo")


def _strip_rust(src):
    src = re.sub(r"/\*.*?\*/", " ", src, flags=re.S)
    src = re.sub(r"//[^\n]*", " ", src)
    src = re.sub(r"#!?\[[^\]]*\]", " ", src)
    return src


def _read(rel):
    with open(os.path.join(REPO, rel)) as f:
        return f.read()


def _int(tok):
    tok = tok.replace("_", "")
    tok = re.sub(r"(u8|u16|u32|u64|usize|i32|i64)$", "", tok)
    return int(tok, 0)


def rust_consts(rel):
    """{NAME: int} for `const NAME: T = <int literal>;` (pub or not)."""
    src = _strip_rust(_read(rel))
    out = {}
    for m in re.finditer(r"\bconst\s+([A-Z0-9_]+)\s*:\s*[A-Za-z0-9_]+\s*=\s*(0x[0-9A-Fa-f_]+|\d[\d_]*)\s*;", src):
        out[m.group(1)] = _int(m.group(2))
    return out


def rust_opcode_table():
    """Parse OpcodeEntry { ... } blocks of opcodes.rs -> {opcode: dict(kind,name,cond,ops_reversed,operands)}."""
    src = _strip_rust(_read("sc62015/core/src/llama/opcodes.rs"))
    i = src.index("OPCODES")
    body = src[i:]
    out = {}
    for m in re.finditer(r"OpcodeEntry\s*\{(.*?)\}\s*,", body, flags=re.S):
        blk = m.group(1)
        if "opcode" not in blk or "operands" not in blk:
            continue
        op = re.search(r"opcode\s*:\s*(0x[0-9A-Fa-f]+|\d+)", blk)
        kind = re.search(r"kind\s*:\s*InstrKind::(\w+)", blk)
        name = re.search(r'name\s*:\s*"([^"]*)"', blk)
        cond = re.search(r'cond\s*:\s*(None|Some\(\s*"([^"]*)"\s*\))', blk)
        rev = re.search(r"ops_reversed\s*:\s*(None|Some\(\s*(true|false)\s*\))", blk)
        ops = re.search(r"operands\s*:\s*&\[(.*)\]", blk, flags=re.S)
        if not (op and name and cond and rev and ops is not None):
            raise ValueError("unparsable OpcodeEntry block: " + blk[:80])
        operands = []
        depth, cur = 0, ""
        for ch in ops.group(1):
            if ch == "(":
                depth += 1
            if ch == ")":
                depth -= 1
            if ch == "," and depth == 0:
                if cur.strip():
                    operands.append(re.sub(r"\s+", "", cur))
                cur = ""
            else:
                cur += ch
        if cur.strip():
            operands.append(re.sub(r"\s+", "", cur))
        out[_int(op.group(1))] = dict(kind=kind.group(1) if kind else None, name=name.group(1),
                                      cond=cond.group(2) if cond.group(1) != "None" else None,
                                      ops_reversed=(rev.group(2) == "true") if rev.group(1) != "None" else None,
                                      operands=[o.replace("OperandKind::", "") for o in operands])
    return out


def py_operand(op):
    """Canonical Rust-style spelling of a Python operand template (fixed table of this check)."""
    n = type(op).__name__
    if n == "Reg":
        from sc62015.pysc62015.instr.opcodes import REG_SIZES
        return f"Reg(RegName::{op.reg},{8 * op.width()})"
    simple = {"RegIL": "RegIL", "RegIMR": "RegIMR", "RegF": "RegF", "RegB": "RegB", "Reg3": "Reg3", "ImmOffset": "ImmOffset",
              "Imm8": "Imm(8)", "Imm16": "Imm(16)", "Imm20": "Imm(20)", "IMem8": "IMem(8)", "IMem16": "IMem(16)", "IMem20": "IMem(20)"}
    if n in simple:
        return simple[n]
    if n == "RegPair":
        return f"RegPair({op.size})"
    if n == "EMemAddr":
        return f"EMemAddrWidth({op.width()})"
    if n == "EMemReg":
        modes = {m.name for m in (op.allowed_modes or [])}
        if modes == {"POST_INC", "PRE_DEC"}:
            return "EMemRegModePostPre"
        return f"EMemRegWidth({op.width})"
    if n == "EMemIMem":
        return f"EMemIMemWidth({op._width})"
    if n == "RegIMemOffset":
        return "RegIMemOffset(RegImemOffsetKind::%s)" % ("DestImem" if op.order.name == "DEST_IMEM" else "DestRegOffset")
    if n == "EMemIMemOffset":
        return "EMemImemOffsetDestIntMem" if op.order.name == "DEST_INT_MEM" else "EMemImemOffsetDestExtMem"
    raise ValueError(f"operand class {n} has no canonical spelling")


def py_opcode_table():
    from sc62015.pysc62015.instr.opcode_table import OPCODES
    out = {}
    for opc, ent in OPCODES.items():
        if isinstance(ent, tuple):
            cls, opts = ent
            out[opc] = dict(name=opts.name or cls.__name__, cond=opts.cond, ops_reversed=True if opts.ops_reversed else None,
                            operands=[py_operand(o) for o in (opts.ops or [])], cls=cls.__name__)
        else:
            out[opc] = dict(name=ent.__name__, cond=None, ops_reversed=None, operands=[], cls=ent.__name__)
    return out


def unit_tables(unit):
    t0 = time.time()
    os.environ["FORCE_BINJA_MOCK"] = "1"
    if sys.path[0] != REPO:
        sys.path.insert(0, REPO)
    from binja_test_mocks import binja_api  # noqa: F401
    res = []

    def eq(name, a, b, src_a, src_b):
        ok = a == b
        res.append(dict(name=name, status="proved" if ok else "failed", backend="evaluation", model=None,
                        detail=None if ok else f"{src_a} = {a!r}  vs  {src_b} = {b!r}"))

    # ---- 1. opcode table: Python objects vs opcodes.rs
    py = py_opcode_table()
    rs = rust_opcode_table()
    eq("opcodes:python-has-256-entries", sorted(py), list(range(256)), "opcode_table.OPCODES keys", "0..255")
    eq("opcodes:rust-has-256-entries", sorted(rs), list(range(256)), "opcodes.rs entries", "0..255")
    for opc in range(256):
        p, r = py.get(opc), rs.get(opc)
        if p is None or r is None:
            continue
        tag = f"opcode[{opc:02X}]"
        pname = "Unknown" if p["name"] == "UnknownInstruction" else p["name"]
        rname = r["name"]
        eq(f"{tag}:name", pname.upper() if pname != "JP_Abs" else "JP_ABS", rname.upper().replace("UNKNOWNINSTRUCTION", "UNKNOWN"), "Python Opts.name/class", "Rust name")
        eq(f"{tag}:cond", p["cond"], r["cond"], "Python Opts.cond", "Rust cond")
        eq(f"{tag}:ops_reversed", bool(p["ops_reversed"]), bool(r["ops_reversed"]), "Python Opts.ops_reversed", "Rust ops_reversed")
        eq(f"{tag}:operands", p["operands"], r["operands"], "Python operand templates", "Rust operands")
    # ---- 2. PRE table and single-addressable set (eval.rs)
    from sc62015.pysc62015.instr import opcodes as OPC
    src = _strip_rust(_read("sc62015/core/src/llama/eval.rs"))
    m = re.search(r"const\s+PRE_MODES[^=]*=\s*&\[(.*?)\];", src, flags=re.S)
    rs_pre = {}
    names = {"N": "(n)", "BpN": "(BP+n)", "PxN": "(PX+n)", "PyN": "(PY+n)", "BpPx": "(BP+PX)", "BpPy": "(BP+PY)"}
    for t in re.finditer(r"\(\s*(0x[0-9A-Fa-f]+)\s*,\s*AddressingMode::(\w+)\s*,\s*AddressingMode::(\w+)\s*\)", m.group(1)):
        rs_pre[_int(t.group(1))] = (names[t.group(2)], names[t.group(3)])
    py_pre = {op: (OPC.PRE_TABLE[1][op].value, OPC.PRE_TABLE[2][op].value) for op in OPC.PRE_TABLE[1]}
    eq("pre-table:opcodes", sorted(py_pre), sorted(rs_pre), "opcodes.PRE_TABLE", "eval.rs PRE_MODES")
    for op in sorted(set(py_pre) & set(rs_pre)):
        eq(f"pre-table[{op:02X}]", py_pre[op], rs_pre[op], "opcodes.PRE_TABLE", "eval.rs PRE_MODES")
    pre_ops = sorted(o for o, e in py.items() if e["cls"] == "PRE")
    eq("pre-table:matches-PRE-opcodes", pre_ops, sorted(py_pre), "opcode_table entries of class PRE", "PRE_TABLE keys")
    m = re.search(r"const\s+SINGLE_ADDRESSABLE_OPCODES[^=]*=\s*&\[(.*?)\];", src, flags=re.S)
    rs_single = sorted(_int(x) for x in re.findall(r"0x[0-9A-Fa-f]+", m.group(1)))
    eq("single-addressable-opcodes", sorted(OPC.SINGLE_ADDRESSABLE_OPCODES), rs_single, "opcodes.SINGLE_ADDRESSABLE_OPCODES", "eval.rs SINGLE_ADDRESSABLE_OPCODES")
    # ---- 3. register widths: arch.regs, REGISTERS/REG_SIZES, REGISTER_SIZE, Registers masks, mask_for
    from sc62015 import arch as ARCH
    from sc62015.pysc62015.instr.opcode_table import OPCODES as OPCODES_
    from sc62015.pysc62015 import emulator as EMU
    from sc62015.pysc62015 import constants as K
    st = _strip_rust(_read("sc62015/core/src/llama/state.rs"))
    m = re.search(r"fn\s+mask_for[^{]*\{\s*match\s+name\s*\{(.*?)\n\s*\}\s*\}", st, flags=re.S)
    rs_mask = {}
    for arm in re.finditer(r"((?:RegName::\w+(?:\(_\))?\s*\|?\s*)+)=>\s*(0x[0-9A-Fa-f_]+)", m.group(1)):
        for nm in re.findall(r"RegName::(\w+)", arm.group(1)):
            rs_mask[nm] = _int(arm.group(2))
    doc_bits = {"A": 8, "B": 8, "IL": 8, "IH": 8, "BA": 16, "I": 16, "X": 20, "Y": 20, "U": 20, "S": 20, "PC": 20, "F": 8, "FC": 1, "FZ": 1}
    for r, bits in doc_bits.items():
        eq(f"reg-width:{r}:rust-mask", rs_mask.get(r), (1 << bits) - 1, "state.rs mask_for", "architectural width")
        regs = EMU.Registers()
        regs.set(EMU.RegisterName[r], 0xFFFFFFFF)
        eq(f"reg-width:{r}:python-emulator", regs.get(EMU.RegisterName[r]), (1 << bits) - 1, "Registers.set/get of 0xFFFFFFFF", "architectural width")
    eq("reg-width:TEMP:rust-mask", rs_mask.get("Temp"), 0xFFFFFF, "state.rs mask_for Temp", "24-bit scratch")
    stor = {"A": 1, "B": 1, "IL": 1, "IH": 1, "BA": 2, "I": 2, "X": 3, "Y": 3, "U": 3, "S": 3, "PC": 3, "F": 1, "FC": 1, "FZ": 1}
    for r, n in stor.items():
        eq(f"reg-size:{r}:REGISTER_SIZE", EMU.REGISTER_SIZE[EMU.RegisterName[r]], n, "emulator.REGISTER_SIZE", "storage bytes")
    for r in ("A", "IL", "BA", "I", "X", "Y", "U", "S"):
        eq(f"reg-size:{r}:REG_SIZES", OPC.REG_SIZES[r], stor[r], "opcodes.REG_SIZES", "storage bytes")
        eq(f"reg-size:{r}:arch.regs", ARCH.SC62015.regs[r].size, stor[r], "arch.SC62015.regs size", "storage bytes")
    eq("reg-order:REG_NAMES", [str(x) for x in OPC.REG_NAMES], ["A", "IL", "BA", "I", "X", "Y", "U", "S"], "opcodes.REG_NAMES (3-bit codes)", "README register encoding table")
    for sub, (base, off) in {"A": ("BA", 0), "B": ("BA", 1), "IL": ("I", 0), "IH": ("I", 1)}.items():
        ri = ARCH.SC62015.regs[sub]
        eq(f"subreg:{sub}:arch", (getattr(ri, "full_width_reg", None) or ri.name, ri.size, ri.offset), (base, 1, off), "arch.SC62015.regs", "README: low/high byte")
        b, sh, mk = EMU.Registers._SUBREG_INFO[EMU.RegisterName[sub]]
        eq(f"subreg:{sub}:emulator", (b.name, sh, mk), (base, 8 * off, 0xFF), "Registers._SUBREG_INFO", "README: low/high byte")
    eq("subreg:FC", tuple(x if not hasattr(x, "name") else x.name for x in EMU.Registers._SUBREG_INFO[EMU.RegisterName.FC]), ("F", 0, 1), "_SUBREG_INFO[FC]", "C = F bit 0")
    eq("subreg:FZ", tuple(x if not hasattr(x, "name") else x.name for x in EMU.Registers._SUBREG_INFO[EMU.RegisterName.FZ]), ("F", 1, 1), "_SUBREG_INFO[FZ]", "Z = F bit 1")
    eq("num-temps", EMU.NUM_TEMP_REGISTERS, 14, "emulator.NUM_TEMP_REGISTERS", "TEMP0..13 used by the lifter")
    # ---- 4. IMEM offsets, vectors, address-space constants
    mem = rust_consts("sc62015/core/src/memory.rs")
    ev = rust_consts("sc62015/core/src/llama/eval.rs")
    for nm, val in mem.items():
        mm = re.fullmatch(r"IMEM_(\w+)_OFFSET", nm)
        if mm and mm.group(1) in OPC.IMEMRegisters.__members__:
            eq(f"imem-offset:{mm.group(1)}", int(OPC.IMEMRegisters[mm.group(1)]), val, "opcodes.IMEMRegisters", "memory.rs " + nm)
    for nm in ("BP", "PX", "PY", "KOL", "KOH", "KIL", "IMR", "ISR", "UCR", "USR", "SCR", "LCC", "SSR"):
        eq(f"imem-offset:{nm}:declared-in-rust", f"IMEM_{nm}_OFFSET" in mem, True, "memory.rs", "expected constant")
    # the documented internal memory map (sc62015/pysc62015/README.md, "defined in opcodes.py") is a further copy of the
    # offsets: every row of the table vs IMEMRegisters, and no named register missing from it in 0xEC..0xFF
    import os as _os
    readme = open(_os.path.join(REPO, "sc62015/pysc62015/README.md"), encoding="utf-8").read()
    sect = readme[readme.index("### Internal Memory Map"):]
    sect = sect[:sect.index("\n### ", 5)] if "\n### " in sect[5:] else sect
    rows = re.findall(r"^\| \*\*(\w+)\*\* \| 0x([0-9A-Fa-f]{2}) \|", sect, flags=re.M)
    eq("imem-offset:README:table-found", len(rows) >= 20, True, "README internal memory map", "at least the 20 rows BP..SSR")
    for nm, hx in rows:
        have = OPC.IMEMRegisters.__members__.get(nm)
        eq(f"imem-offset:README:{nm}", None if have is None else int(have), int(hx, 16), "opcodes.IMEMRegisters", "README internal memory map")
    documented = {nm for nm, _ in rows}
    for nm, member in OPC.IMEMRegisters.__members__.items():
        if 0xEC <= int(member) <= 0xFF:
            eq(f"imem-offset:README:{nm}:documented", nm in documented, True, "opcodes.IMEMRegisters", "README internal memory map row")
    eq("vector:interrupt", OPC.INTERRUPT_VECTOR_ADDR, ev.get("INTERRUPT_VECTOR_ADDR"), "opcodes.INTERRUPT_VECTOR_ADDR", "eval.rs INTERRUPT_VECTOR_ADDR")
    eq("vector:reset", OPC.ENTRY_POINT_ADDR, ev.get("ROM_RESET_VECTOR_ADDR"), "opcodes.ENTRY_POINT_ADDR", "eval.rs ROM_RESET_VECTOR_ADDR")
    eq("internal-memory-start", K.INTERNAL_MEMORY_START, mem.get("INTERNAL_MEMORY_START"), "constants.INTERNAL_MEMORY_START", "memory.rs INTERNAL_MEMORY_START")
    eq("internal-memory-length", K.INTERNAL_MEMORY_LENGTH, mem.get("INTERNAL_SPACE"), "constants.INTERNAL_MEMORY_LENGTH", "memory.rs INTERNAL_SPACE")
    eq("external-space", K.ADDRESS_SPACE_SIZE - K.INTERNAL_MEMORY_LENGTH, mem.get("EXTERNAL_SPACE"), "ADDRESS_SPACE_SIZE - INTERNAL_MEMORY_LENGTH", "memory.rs EXTERNAL_SPACE")
    eq("pc-mask", K.PC_MASK, rs_mask.get("PC"), "constants.PC_MASK", "state.rs mask_for(PC)")
    eq("pc-mask:emulator", EMU.PC_MASK, K.PC_MASK, "emulator.PC_MASK", "constants.PC_MASK")
    # the Python RESET intrinsic must use the declared reset vector
    import inspect
    from sc62015.pysc62015 import intrinsics as INTR
    vec = sorted(set(int(x, 16) for x in re.findall(r"read_byte\((0x[0-9A-Fa-f]+)\)", inspect.getsource(INTR.eval_intrinsic_reset))))
    eq("vector:reset:python-intrinsic", vec[:1], [OPC.ENTRY_POINT_ADDR], "intrinsics.eval_intrinsic_reset first vector byte read", "opcodes.ENTRY_POINT_ADDR")
    # ---- 5. snapshot register layout
    snap = _strip_rust(_read("sc62015/core/src/snapshot.rs"))
    m = re.search(r"SNAPSHOT_REGISTER_LAYOUT[^=]*=\s*\[(.*?)\];", snap, flags=re.S)
    rs_layout = [(a.lower(), int(b)) for a, b in re.findall(r'\(\s*"(\w+)"\s*,\s*(\d+)\s*\)', m.group(1))]
    import pce500.emulator as PE
    eq("snapshot-register-layout", [tuple(x) for x in PE._SNAPSHOT_REGISTER_LAYOUT], rs_layout, "pce500.emulator._SNAPSHOT_REGISTER_LAYOUT", "snapshot.rs SNAPSHOT_REGISTER_LAYOUT")
    # ---- 6. Binary Ninja views
    from sc62015 import view as VIEW
    for cls in (VIEW.SC62015RomView, VIEW.SC62015FullView):
        segs = cls.SEGMENTS
        for i, s in enumerate(segs):
            eq(f"view:{cls.__name__}:{s.name}:inside-address-space", 0 <= s.start and s.start + s.length <= K.ADDRESS_SPACE_SIZE, True,
               f"segment [{s.start:#x},{s.start + s.length:#x})", f"[0,{K.ADDRESS_SPACE_SIZE:#x})")
            eq(f"view:{cls.__name__}:{s.name}:non-empty", s.length > 0, True, "length", "> 0")
            for t in segs[i + 1:]:
                disjoint = s.start + s.length <= t.start or t.start + t.length <= s.start
                eq(f"view:{cls.__name__}:{s.name}/{t.name}:disjoint", disjoint, True, f"[{s.start:#x},+{s.length:#x})", f"[{t.start:#x},+{t.length:#x})")
        ir = [s for s in segs if "internal" in s.name.lower()]
        eq(f"view:{cls.__name__}:internal-ram-segment", [(s.start, s.length) for s in ir], [(K.INTERNAL_MEMORY_START, K.INTERNAL_MEMORY_LENGTH)],
           "Internal RAM segment", "(INTERNAL_MEMORY_START, INTERNAL_MEMORY_LENGTH) used by the lifter")
    # ---- 7. architecture-level constants derived from the tables
    longest = 0
    longest_bytes = b""
    for pre in (None, 0x32):
        for opc in range(256):
            for fill in (0x00, 0x80, 0xC0, 0x04, 0x24, 0x84, 0xFF):
                data = bytes(([pre] if pre is not None else []) + [opc] + [fill] * 8)
                try:
                    ins = OPC.decode(data, 0x1000, OPCODES_)
                except Exception:  # noqa: BLE001 - rejected byte patterns do not count
                    ins = None
                if ins is not None and ins.length() > longest:
                    longest, longest_bytes = ins.length(), data[:ins.length()]
    declared = getattr(ARCH.SC62015, "max_instr_length", 16)     # Binary Ninja's default when the class does not say
    eq("arch:max-instr-length-covers-longest-encoding", declared >= longest, True,
       f"arch.SC62015.max_instr_length = {declared}", f"longest encoding the decoder table yields: {longest} bytes ({longest_bytes.hex()})")
    eq("arch:address-size", ARCH.SC62015.address_size, (K.ADDRESS_SPACE_SIZE - 1).bit_length() // 8 + (1 if (K.ADDRESS_SPACE_SIZE - 1).bit_length() % 8 else 0),
       "arch.SC62015.address_size", "bytes needed for ADDRESS_SPACE_SIZE")
    known = unit.get("known", ())
    failed = [r for r in res if r["status"] == "failed"]
    return dict(unit=unit, status="ok", error=None, kinds={"ground": len(res)}, obligations=len(res),
                proved=sum(r["status"] == "proved" for r in res), failed=failed[:40], nfailed=len(failed), unknown=0,
                undecided_notes=[], stats=dict(paths=0, queries=0, solver_s=0.0), by_backend={"evaluation": len(res) - len(failed)},
                wall_s=round(time.time() - t0, 2),
                sample=[r["name"] for r in res[:4]])
