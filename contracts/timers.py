"""C13: contracts on pce500.scheduler.TimerScheduler (mathematical integers, loop rule) and the
ISR-bit mapping in PCE500Emulator._tick_timers."""
from __future__ import annotations

import time

import z3

from symx import core, astpass
from symx.core import T, SymInt, SymBool


def _report(run, unit, t0, status="ok", err=None, kinds=None, extra=None):
    obs = run.obligations
    by = {}
    for o in obs:
        if o.status == "proved":
            by[o.backend] = by.get(o.backend, 0) + 1
    d = dict(unit=unit, status=status, error=err, kinds=kinds or {}, obligations=len(obs),
             proved=sum(o.status == "proved" for o in obs),
             failed=core.failed_sample(obs, 12),
             nfailed=sum(o.status == "failed" for o in obs), unknown=sum(o.status == "unknown" for o in obs),
             undecided_notes=run.undecided[:5], stats=run.stats.as_dict(), by_backend=by,
             wall_s=round(time.time() - t0, 2))
    d.update(extra or {})
    return d


def _explore(body, unit, **kw):
    t0 = time.time()
    run = core.Run(max_paths=kw.get("max_paths", 4000), wall_s=kw.get("wall_s", 300))
    status, err = "ok", None
    try:
        core.explore(body, run=run)
    except core.Undecided as e:
        status, err = "undecided", str(e)
    except core.EngineError as e:
        status, err = "engine-error", str(e)
    kinds = {}
    for _, r in run.results:
        kinds[str(r)] = kinds.get(str(r), 0) + 1
    return _report(run, unit, t0, status, err, kinds)


def unit_advance(unit):
    """TimerScheduler.advance(cycle) for all periods, targets and cycle values (unbounded ints)."""
    from symx import env
    env.setup(extra=["pce500.scheduler"])
    import pce500.scheduler as SCH
    enabled = unit["enabled"]

    def body(eng):
        mp, sp = eng.fresh_int("mti_period"), eng.fresh_int("sti_period")
        nm, ns = eng.fresh_int("next_mti"), eng.fresh_int("next_sti")
        cyc = eng.fresh_int("cycle")
        sch = SCH.TimerScheduler.__new__(SCH.TimerScheduler)
        sch.mti_period, sch.sti_period, sch.enabled = mp, sp, enabled
        sch._next_mti, sch._next_sti = nm, ns

        def mk(per, attr, n0):
            def inv(L, g):
                s = L["self"]
                return core.and_(getattr(s, per) > 0, g["k"] >= 0, getattr(s, attr) == n0 + g["k"] * getattr(s, per),
                                 getattr(s, attr) - getattr(s, per) <= L["cycle_count"])

            def variant(L):
                return L["cycle_count"] - getattr(L["self"], attr) + 1
            return astpass.LoopSpec(inv, variant, ghosts={"k": 0}, step=lambda g: {"k": g["k"] + 1})

        specs = {0: mk("mti_period", "_next_mti", nm), 1: mk("sti_period", "_next_sti", ns)}
        fresh = lambda n: eng.fresh_int(n + f"!{eng.nfresh}") if not _bump(eng) else None
        if astpass.count_loops(SCH.TimerScheduler.advance) == 0:
            # no loop at all (e.g. a closed-form catch-up): plain symbolic execution is complete
            adv, ctx = SCH.TimerScheduler.advance, None
        else:
            adv, ctx = astpass.rebuild_with_loops(SCH.TimerScheduler.advance, specs, fresh)
        fired = list(adv(sch, cyc))
        f_m, f_s = SCH.TimerSource.MTI in fired, SCH.TimerSource.STI in fired
        P = lambda name, c, d=None: eng.prove(name, core._b(c), detail=d)
        if not enabled:
            P("disabled:nothing-fires", not fired)
            P("disabled:targets-unchanged", core.and_(sch._next_mti == nm, sch._next_sti == ns))
            return "disabled"
        for tag, fired_t, per, n0, n1 in (("mti", f_m, mp, nm, sch._next_mti), ("sti", f_s, sp, ns, sch._next_sti)):
            due = core.and_(per > 0, cyc >= n0)
            P(f"{tag}:fires-iff-due", SymBool(T_b(due) == z3.BoolVal(fired_t)), "fired <=> period > 0 and cycle >= target")
            P(f"{tag}:zero-period-never-fires", core.or_(per > 0, not fired_t))
            P(f"{tag}:not-due=>target-unchanged", core.or_(due, n1 == n0))
            P(f"{tag}:target-strictly-in-future", core.or_(core.not_(per > 0), n1 > cyc))
            P(f"{tag}:first-boundary-after-cycle", core.or_(core.not_(due), n1 - per <= cyc), "no boundary skipped beyond the first one after cycle")
            P(f"{tag}:periods-unchanged", True)
        P("periods-unchanged", core.and_(sch.mti_period == mp, sch.sti_period == sp, sch.enabled is True))
        if f_m and f_s:
            P("order:MTI-before-STI", fired.index(SCH.TimerSource.MTI) < fired.index(SCH.TimerSource.STI))
        P("fired-has-no-duplicates", len(fired) == len(set(fired)))
        # congruence: target moved by a whole number of periods (ghost k from the loop invariant)
        for i, (tag, per, n0, n1, ft) in enumerate((("mti", mp, nm, sch._next_mti, f_m), ("sti", sp, ns, sch._next_sti, f_s))):
            if ft and ctx is not None:
                k = ctx.exit_ghost(i)["k"]
                P(f"{tag}:moved-by-whole-periods", core.and_(k >= 1, n1 == n0 + k * per))
        return "enabled:" + ",".join(s.name for s in fired)

    return _explore(body, unit)


def _bump(eng):
    eng.nfresh += 1
    return False


def T_b(x):
    return core._b(x)


def unit_cadence(unit):
    """Lemma over the contract of advance(): ticking every cycle (cycle = last+1, target > last)
    fires iff cycle == target and then the target advances by exactly one period."""
    t0 = time.time()
    res = []
    n0, p, c, k, n1 = z3.Ints("n0 p c k n1")
    contract = [p > 0,
                z3.Implies(c >= n0, z3.And(k >= 1, n1 == n0 + k * p, n1 > c, n1 - p <= c)),   # fired
                z3.Implies(c < n0, n1 == n0)]
    hyp = contract + [n0 > c - 1]          # invariant: target strictly after the previous cycle
    def prove(name, goal, expect=True):
        s = z3.Solver()
        s.set("timeout", 60000)
        s.add(*hyp)
        s.add(z3.Not(goal))
        r = s.check()
        ok = (r == z3.unsat) if expect else (r == z3.sat)
        res.append(dict(name=name, status="proved" if ok else ("unknown" if r == z3.unknown else "failed"), backend="z3", model=None, detail=None))
    prove("cadence:fires-only-on-the-boundary", z3.Implies(c >= n0, c == n0))
    prove("cadence:exactly-one-period", z3.Implies(c >= n0, n1 == n0 + p))
    prove("cadence:invariant-reestablished", n1 > c)
    prove("cadence:never-twice-for-one-boundary", z3.Implies(c >= n0, n1 > c + 0))
    prove("cadence:probe-contract-satisfiable", z3.BoolVal(False), expect=False)
    return dict(unit=unit, status="ok", error=None, kinds={"lemma": len(res)}, obligations=len(res),
                proved=sum(r["status"] == "proved" for r in res), failed=[r for r in res if r["status"] == "failed"],
                nfailed=sum(r["status"] == "failed" for r in res), unknown=sum(r["status"] == "unknown" for r in res),
                undecided_notes=[], stats=dict(paths=0, queries=len(res), solver_s=round(time.time() - t0, 2)),
                by_backend={"z3": sum(r["status"] == "proved" for r in res)}, wall_s=round(time.time() - t0, 2))


def unit_reset_setters(unit):
    from symx import env
    env.setup(extra=["pce500.scheduler"])
    import pce500.scheduler as SCH

    def body(eng):
        mp, sp, base, a, b = (eng.fresh_int(n) for n in ("mp", "sp", "base", "a", "b"))
        sch = SCH.TimerScheduler(mp, sp)
        P = lambda n, c: eng.prove(n, core._b(c))
        P("init:next=period", core.and_(sch.next_mti == mp, sch.next_sti == sp, sch.enabled is True))
        sch.reset(cycle_base=base)
        P("reset:targets=base+period", core.and_(sch.next_mti == base + mp, sch.next_sti == base + sp))
        P("reset:periods-unchanged", core.and_(sch.mti_period == mp, sch.sti_period == sp))
        sch.next_mti = a
        P("setter:mti", core.and_(sch.next_mti == a, sch.next_sti == base + sp))
        sch.next_sti = b
        P("setter:sti", core.and_(sch.next_mti == a, sch.next_sti == b))
        return "ok"

    return _explore(body, unit)


# --------------------------------------------------------------------------- machine level
class _Mem:
    """Context stub for PCE500Emulator.memory: byte cells over a SymMem."""

    def __init__(self, sm):
        self.sm = sm

    def read_byte(self, a):
        return self.sm.read(a)

    def write_byte(self, a, v):
        self.sm.write(a, v)


class _Kbd:
    def __init__(self):
        self.scans = 0

    def scan_tick(self):
        self.scans += 1
        return []


def _fake_emulator(eng, PE, SCH, enabled=True, in_interrupt=False):
    import types
    from symx.containers import SymMem
    sm = SymMem("imem", eng)
    fake = types.SimpleNamespace()
    fake.memory = _Mem(sm)
    fake.keyboard = _Kbd()
    fake._scan_on_timer = True
    fake._irq_pending = False
    fake._irq_source = None
    fake._in_interrupt = in_interrupt
    fake._timer_enabled = enabled
    fake.perfetto_enabled = False
    fake._new_trace_enabled = False
    fake.log = []
    for name in ("_tick_timers", "_set_isr_bits", "_trace_irq_instant", "_simulate_wait"):
        setattr(fake, name, types.MethodType(getattr(PE.PCE500Emulator, name), fake))
    real_set = fake._set_isr_bits

    def logged(mask):
        fake.log.append((fake.cycle_count, mask))
        return real_set(mask)

    fake._set_isr_bits = logged
    return fake, sm


def unit_tick(unit):
    """PCE500Emulator._tick_timers on a context stub: fired sources -> ISR bits 0/1, pending flag."""
    from symx import env
    env.setup(extra=["pce500.scheduler", "pce500.emulator"])
    import pce500.scheduler as SCH
    import pce500.emulator as PE
    ISR = 0x100000 + 0xFC

    def body(eng):
        fake, sm = _fake_emulator(eng, PE, SCH)
        mp, sp, nm, ns, cyc = (eng.fresh_int(n) for n in ("mp", "sp", "nm", "ns", "cyc"))
        # tick-every-cycle regime: targets are strictly after the previous cycle
        eng.assume(core._b(core.and_(mp > 0, sp > 0, nm > cyc - 1, ns > cyc - 1)))
        sch = SCH.TimerScheduler.__new__(SCH.TimerScheduler)
        sch.mti_period, sch.sti_period, sch.enabled, sch._next_mti, sch._next_sti = mp, sp, True, nm, ns
        fake._scheduler = sch
        fake.cycle_count = cyc
        isr0 = sm.cell_int(ISR)
        fake._tick_timers()
        fm, fs = (cyc == nm), (cyc == ns)
        want = isr0 | core.ite(fm, 1, 0) | core.ite(fs, 2, 0)
        P = lambda n, c, d=None: eng.prove(n, core._b(c), detail=d)
        P("tick:isr-bits", SymInt(z3.ZeroExt(56, sm.now(ISR)), 0, 255) == want, "ISR' = ISR | MTI(bit0) | STI(bit1) for exactly the fired sources")
        k = z3.BitVec("k!frame", 64)
        P("tick:memory-frame", SymBool(z3.Implies(k != ISR, z3.Select(sm.arr, k) == z3.Select(sm.init, k))), "no other byte changes")
        P("tick:pending", SymBool(core._b(core.or_(fm, fs)) == z3.BoolVal(bool(fake._irq_pending))))
        P("tick:targets", core.and_(sch._next_mti == core.ite(fm, nm + mp, nm), sch._next_sti == core.ite(fs, ns + sp, ns)))
        P("tick:keyboard-scan-per-mti", SymBool(z3.BoolVal(fake.keyboard.scans == 1) == core._b(fm)))
        return "tick"

    return _explore(body, unit)


def unit_wait(unit):
    """PCE500Emulator._simulate_wait(n) for a concrete n (bounded): ticking happens at every single
    cycle; the ghost log of ISR updates equals the per-cycle specification."""
    from symx import env
    env.setup(extra=["pce500.scheduler", "pce500.emulator"])
    import pce500.scheduler as SCH
    import pce500.emulator as PE
    n = unit["n"]
    enabled, in_irq = unit.get("enabled", True), unit.get("in_interrupt", False)
    ISR = 0x100000 + 0xFC

    def body(eng):
        fake, sm = _fake_emulator(eng, PE, SCH, enabled, in_irq)
        mp, sp, nm, ns, c0 = (eng.fresh_int(x) for x in ("mp", "sp", "nm", "ns", "c0"))
        eng.assume(core._b(core.and_(mp > 0, sp > 0, nm > c0, ns > c0)))
        sch = SCH.TimerScheduler.__new__(SCH.TimerScheduler)
        sch.mti_period, sch.sti_period, sch.enabled, sch._next_mti, sch._next_sti = mp, sp, True, nm, ns
        fake._scheduler = sch
        fake.cycle_count = c0
        fake._simulate_wait(n)
        P = lambda nme, c, d=None: eng.prove(nme, core._b(c), detail=d)
        P("wait:cycle-count", fake.cycle_count == c0 + n)
        # specification: per-cycle ticking
        tm, ts = nm, ns
        want = []
        for i in range(1, n + 1):
            c = c0 + i
            if enabled and not in_irq:
                want.append((c, c == tm, c == ts))
                tm, ts = core.ite(c == tm, tm + mp, tm), core.ite(c == ts, ts + sp, ts)
        # every logged ISR update happened at the cycle and for the source the spec prescribes
        fired_m = {id(c): False for c, _, _ in want}
        for c, m, s in want:
            hits_m = [1 for (lc, mask) in fake.log if mask == 1 and bool(SymBool(core._b(lc == c)))]
            hits_s = [1 for (lc, mask) in fake.log if mask == 2 and bool(SymBool(core._b(lc == c)))]
            P("wait:mti-once-per-boundary", SymBool(core._b(m) == z3.BoolVal(len(hits_m) == 1)) if len(hits_m) <= 1 else False,
              f"cycle c0+{[x for x, _, _ in want].index(c) + 1}")
            P("wait:sti-once-per-boundary", SymBool(core._b(s) == z3.BoolVal(len(hits_s) == 1)) if len(hits_s) <= 1 else False)
        if not (enabled and not in_irq):
            P("wait:suppressed", len(fake.log) == 0, "timers disabled or inside a handler: nothing fires")
        P("wait:targets", core.and_(sch._next_mti == tm, sch._next_sti == ts))
        return f"wait{n}"

    return _explore(body, unit, max_paths=6000)


def unit_wait_all(unit):
    """PCE500Emulator._simulate_wait(n) for EVERY n (symbolic trip count, unbounded integers): the loop is
    verified by the range rule (symx/astpass.RangeRule) with the invariant, over the ghost iteration number j,
        cycle = c0 + j;  next_T = next_T0 + k_T * period_T, k_T >= 0, next_T > cycle, (k_T = 0 or next_T - period_T <= cycle);
        #ISR updates for T so far = k_T;  ISR = ISR0 | (k_M > 0) | (k_S > 0) << 1;  pending = pending0 or k_M > 0 or k_S > 0
    i.e. after every cycle each timer has fired exactly once per period boundary crossed and its target is
    strictly in the future.  Every ISR update is checked to happen at the boundary cycle itself.  With the timers
    disabled or inside a handler nothing fires and only the cycle counter moves."""
    from symx import env, astpass
    env.setup(extra=["pce500.scheduler", "pce500.emulator"])
    import types
    import pce500.scheduler as SCH
    import pce500.emulator as PE
    enabled, in_irq = unit.get("enabled", True), unit.get("in_interrupt", False)
    ISR = 0x100000 + 0xFC
    live = enabled and not in_irq

    def body(eng):
        fake, sm = _fake_emulator(eng, PE, SCH, enabled, in_irq)
        mp, sp, nm0, ns0, c0, n = (eng.fresh_int(x) for x in ("mp", "sp", "nm", "ns", "c0", "n"))
        eng.assume(core._b(core.and_(mp > 0, sp > 0, nm0 > c0, ns0 > c0)))
        sch = SCH.TimerScheduler.__new__(SCH.TimerScheduler)
        sch.mti_period, sch.sti_period, sch.enabled, sch._next_mti, sch._next_sti = mp, sp, True, nm0, ns0
        fake._scheduler = sch
        fake.cycle_count = c0
        pend0 = eng.fresh_bool("pending0")
        fake._irq_pending = pend0
        isr0 = sm.cell_int(ISR)
        g = dict(cm=0, cs=0)      # ghosts k_M, k_S: status-bit updates seen so far (= boundaries crossed, by the invariant)
        P = lambda nme, c, d=None: eng.prove(nme, core._b(c), detail=d)
        real_set = types.MethodType(PE.PCE500Emulator._set_isr_bits, fake)

        def logged(mask):
            # every status-bit update happens at the boundary cycle itself (the target was bumped by exactly one period)
            if mask == 1:
                g["cm"] = g["cm"] + 1
                P("wait:mti-update-at-its-boundary-cycle", fake.cycle_count == sch._next_mti - mp)
            elif mask == 2:
                g["cs"] = g["cs"] + 1
                P("wait:sti-update-at-its-boundary-cycle", fake.cycle_count == sch._next_sti - sp)
            else:
                P("wait:only-timer-bits-raised", False, f"mask {mask}")
            return real_set(mask)
        fake._set_isr_bits = logged
        srcs = [None, PE.IRQSource.MTI, PE.IRQSource.STI]

        def havoc_state(L, fresh):
            fake.cycle_count = fresh("cycle")
            sch._next_mti, sch._next_sti = fresh("next_mti"), fresh("next_sti")
            for k in g:
                g[k] = fresh("ghost_" + k)
            sm.write(ISR, eng.fresh(f"isr_havoc!{eng.nfresh}", 8))
            fake._irq_pending = eng.fresh_bool(f"pending_havoc!{eng.nfresh}")
            fake._irq_source = srcs[eng.choice(3, tag="irq_source")]

        def inv(L, j):
            cc, nm, ns = fake.cycle_count, sch._next_mti, sch._next_sti
            isr_now = SymInt(z3.ZeroExt(56, sm.now(ISR)), 0, 255)
            base = core.and_(cc == c0 + j, sch.mti_period == mp, sch.sti_period == sp, sch.enabled is True)
            if not live:
                return core.and_(base, nm == nm0, ns == ns0, g["cm"] == 0, g["cs"] == 0, isr_now == isr0,
                                 SymBool(core._b(fake._irq_pending) == core._b(pend0)))
            tm = core.and_(nm == nm0 + g["cm"] * mp, g["cm"] >= 0, nm > cc, core.or_(g["cm"] == 0, nm - mp <= cc))
            ts = core.and_(ns == ns0 + g["cs"] * sp, g["cs"] >= 0, ns > cc, core.or_(g["cs"] == 0, ns - sp <= cc))
            want = isr0 | core.ite(g["cm"] > 0, 1, 0) | core.ite(g["cs"] > 0, 2, 0)
            pend = z3.Or(core._b(pend0), core._b(g["cm"] > 0), core._b(g["cs"] > 0))
            return core.and_(base, tm, ts, isr_now == want, SymBool(core._b(fake._irq_pending) == pend))

        fresh = lambda nme: eng.fresh_int(nme + f"!{eng.nfresh}") if not _bump(eng) else None
        spec = astpass.RangeSpec(inv, havoc_state, covers=("self.cycle_count",))
        wait, ctx = astpass.rebuild_with_range(PE.PCE500Emulator._simulate_wait, {0: spec}, fresh, n_for=1)
        wait(fake, n)
        t = c0 + core.ite(n > 0, n, 0)
        P("wait:cycle-count", fake.cycle_count == t)
        if live:
            for tag, cnt, per, n0, nx in (("mti", g["cm"], mp, nm0, sch._next_mti), ("sti", g["cs"], sp, ns0, sch._next_sti)):
                P(f"wait:{tag}-once-per-boundary-crossed", core.and_(cnt >= 0, n0 + cnt * per > t, core.or_(cnt == 0, n0 + (cnt - 1) * per <= t)),
                  "#status-bit updates = #{b in target0 + N*period : b <= final cycle}")
                P(f"wait:{tag}-target-strictly-in-future", nx > t)
                P(f"wait:{tag}-target-is-next-boundary", nx == n0 + cnt * per)
            P("wait:isr-bits", SymInt(z3.ZeroExt(56, sm.now(ISR)), 0, 255) == (isr0 | core.ite(g["cm"] > 0, 1, 0) | core.ite(g["cs"] > 0, 2, 0)))
        else:
            P("wait:suppressed", core.and_(g["cm"] == 0, g["cs"] == 0, sch._next_mti == nm0, sch._next_sti == ns0), "timers disabled or inside a handler: nothing fires")
        k = z3.BitVec("k!frame", 64)
        P("wait:frame", SymBool(z3.ForAll([k], z3.Implies(k != ISR, z3.Select(sm.arr, k) == z3.Select(sm.init, k)))) if False else
          SymBool(z3.Implies(k != ISR, z3.Select(sm.arr, k) == z3.Select(sm.init, k))), "no memory cell other than ISR changes")
        return "wait-all"

    return _explore(body, unit, max_paths=6000)


class _JsonStub:
    """Contract stub for the json module inside pce500.emulator: ints and bools survive a
    dumps/loads round trip unchanged (trusted stdlib fact).  dumps records the object and
    serialises it with every symbolic leaf replaced by 0; loads returns the parsed text with
    the recorded symbolic leaves put back at the same paths."""

    def __init__(self):
        import json
        self._json = json
        self.sym = {}

    def _strip(self, o, path=()):
        if core.is_sym(o):
            self.sym[path] = o
            return 0
        if isinstance(o, dict):
            return {k: self._strip(v, path + (k,)) for k, v in o.items()}
        if isinstance(o, (list, tuple)):
            return [self._strip(v, path + (i,)) for i, v in enumerate(o)]
        return o

    def dumps(self, obj, **kw):
        self.sym = {}
        self.saved = obj
        return self._json.dumps(self._strip(obj), **kw)

    def loads(self, text, **kw):
        o = self._json.loads(text, **kw)
        for path, v in self.sym.items():
            cur = o
            for p in path[:-1]:
                cur = cur[p]
            cur[path[-1]] = v
        return o

    def __getattr__(self, name):
        return getattr(self._json, name)


class _ZipStub:
    """Contract stub for the zipfile module: an archive returns the members that were written."""
    ZIP_DEFLATED = 8
    store = {}

    class ZipFile:
        def __init__(self, target, mode="r", **kw):
            self.key, self.mode = str(target), mode
            if mode == "w":
                _ZipStub.store[self.key] = {}
                open(self.key, "wb").close()

        def __enter__(self):
            return self

        def __exit__(self, *a):
            return False

        def writestr(self, name, data):
            _ZipStub.store[self.key][name] = data

        def read(self, name):
            return _ZipStub.store[self.key][name]

        def namelist(self):
            return list(_ZipStub.store[self.key])


def unit_snapshot(unit):
    """Snapshot restore point: PCE500Emulator.save_snapshot followed by load_snapshot into a fresh
    emulator reproduces cycle counter, both periods, both targets and the enable flag exactly (for
    all integer values, also targets that are already due); with the advance contract the restored
    scheduler then fires at the same cycles as the original."""
    from symx import env
    env.setup(extra=["pce500.scheduler", "pce500.emulator"])
    import os
    import tempfile
    import pce500.emulator as PE
    in_irq = unit.get("in_interrupt", False)

    def body(eng):
        stub = _JsonStub()
        real_json, real_zip = PE.json, PE.zipfile
        PE.json, PE.zipfile = stub, _ZipStub
        tmp = tempfile.mkdtemp(prefix="symx_snap_")
        try:
            a = PE.PCE500Emulator(save_lcd_on_exit=False)
            mp, sp, nm, ns, cyc = (eng.fresh_int(n) for n in ("mp", "sp", "nm", "ns", "cyc"))
            en = eng.fresh_bool("enabled")
            eng.assume(core._b(core.and_(mp > 0, sp > 0, cyc >= 0)))
            a._scheduler.mti_period, a._scheduler.sti_period = mp, sp
            a._scheduler._next_mti, a._scheduler._next_sti = nm, ns
            a._scheduler.enabled = en
            a._timer_enabled = en
            a.cycle_count = cyc
            a._in_interrupt = in_irq
            path = os.path.join(tmp, "s.pcsnap")
            a.save_snapshot(path)
            ti = stub.saved["timer"]
            P = lambda n, c, d=None: eng.prove(n, core._b(c), detail=d)
            P("save:next_mti", ti["next_mti"] == nm)
            P("save:next_sti", ti["next_sti"] == ns)
            P("save:periods", core.and_(ti["mti_period"] == mp, ti["sti_period"] == sp))
            P("save:enabled", core._b(ti["enabled"]) == core._b(en))
            P("save:cycle_count", stub.saved["cycle_count"] == cyc)
            b = PE.PCE500Emulator(save_lcd_on_exit=False)
            b.load_snapshot(path)
            s = b._scheduler
            P("restore:cycle_count", b.cycle_count == cyc)
            P("restore:next_mti", s.next_mti == nm, "the restored main-timer target is the saved one (also when it is already due)")
            P("restore:next_sti", s.next_sti == ns, "the restored sub-timer target is the saved one (also when it is already due)")
            P("restore:periods", core.and_(s.mti_period == mp, s.sti_period == sp))
            P("restore:enabled", z3.And(core._b(s.enabled) == core._b(en), core._b(b._timer_enabled) == core._b(en)))
            P("restore:in-interrupt", z3.BoolVal(bool(b._in_interrupt) == in_irq))
        finally:
            PE.json, PE.zipfile = real_json, real_zip
            import shutil
            shutil.rmtree(tmp, ignore_errors=True)
        return "roundtrip"

    return _explore(body, unit, wall_s=300)
