"""Reference executor for the C07 bounded companion: runs in a FRESH interpreter (no shims, no
history, nothing else executed in the process) and prints the architectural result of each sample."""
import json
import os
import sys

REPO = os.environ.get("VERIF_REPO", "/repo")


def run_samples(samples):
    os.environ["FORCE_BINJA_MOCK"] = "1"
    if REPO in sys.path:
        sys.path.remove(REPO)
    sys.path.insert(0, REPO)
    from binja_test_mocks import binja_api  # noqa: F401
    from sc62015.pysc62015 import emulator as EMU
    RN = EMU.RegisterName
    out = []
    for s in samples:
        mem = {int(k): v for k, v in s["mem"].items()}
        e = EMU.Emulator(EMU.Memory(lambda a: mem.get(a, 0), lambda a, v: mem.__setitem__(a, v & 0xFF)), reset_on_init=False)
        for r, v in s["regs"].items():
            e.regs.set(RN[r], v)
        try:
            e.execute_instruction(s["addr"])
            oc = "ok"
        except Exception as ex:  # noqa: BLE001
            oc = type(ex).__name__
        out.append(dict(outcome=oc, regs={r: e.regs.get(RN[r]) for r in ("BA", "I", "X", "Y", "U", "S", "F", "PC")},
                        mem={str(a): v for a, v in mem.items() if v}, halted=bool(e.state.halted)))
    return out


if __name__ == "__main__":
    json.dump(run_samples(json.load(sys.stdin)), sys.stdout)
