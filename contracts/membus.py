"""C11: memory laws on the real PCE500Memory / MemoryBus for arbitrary 32-bit addresses."""
from __future__ import annotations

import time

import z3

from symx import core
from symx.containers import ArrBuf
from symx.core import T, W, SymInt, SymBool

CONFIGS = {
    # name: (rom_len or None, card_present, card_writable, extra overlays)
    "default": dict(),
    "rom-full": dict(rom=0x40000),
    "rom-short": dict(rom=0x20000),
    "card-absent": dict(card_present=False),
    "card-readonly": dict(card_writable=False),
    # smaller cards loaded through the real load_memory_card: the window behind the card is not memory
    "card-32k": dict(card_size=32768),
    "card-8k-readonly": dict(card_size=8192, card_writable=False),
    "ram-overlay": dict(ram=(0x80000, 0x1000)),
    "rom-overlay": dict(romov=(0x30000, 0x800)),
    "rom+ram+romov": dict(rom=0x40000, ram=(0x80000, 0x1000), romov=(0x30000, 0x800)),
    # overlapping overlays: a 4-byte ROM stub on the first bytes of a RAM window (the stub sorts first and wins)
    "rom-stub-inside-ram-overlay": dict(ram=(0x80000, 0x1000), romov=(0x80000, 4)),
    "rom-stub-in-the-middle-of-ram-overlay": dict(ram=(0x80000, 0x1000), romov=(0x80800, 3)),
    # overlays at an arbitrary (symbolic) start address, 1 and 3 bytes long
    "sym-rom-overlay-1": dict(romov=("sym", 1)),
    "sym-rom-overlay-3": dict(romov=("sym", 3), rom=0x40000),
    "sym-ram-overlay-1": dict(ram=("sym", 1)),
    "sym-ram-overlay-2": dict(ram=("sym", 2), rom=0x40000),
}


def _report(run, unit, t0, status="ok", err=None, kinds=None):
    obs = run.obligations
    by = {}
    for o in obs:
        if o.status == "proved":
            by[o.backend] = by.get(o.backend, 0) + 1
    return dict(unit=unit, status=status, error=err, kinds=kinds or {}, obligations=len(obs),
                proved=sum(o.status == "proved" for o in obs),
                failed=core.failed_sample(obs, 12),
                nfailed=sum(o.status == "failed" for o in obs), unknown=sum(o.status == "unknown" for o in obs),
                undecided_notes=run.undecided[:5], stats=run.stats.as_dict(), by_backend=by,
                wall_s=round(time.time() - t0, 2))


def _setup():
    from symx import env
    env.setup(extra=["pce500.memory", "pce500.memory_bus"])
    import pce500.memory as PM
    return PM


def build(eng, PM, cfg):
    mem = PM.PCE500Memory()
    mem.external_memory = ArrBuf("ext", 1024 * 1024)
    mem._card_data = ArrBuf("card", 65536)
    if cfg.get("card_size"):
        mem.load_memory_card(bytes(16), cfg["card_size"], writable=cfg.get("card_writable", True))
        mem._card_data = ArrBuf("card", cfg["card_size"])
    if "card_present" in cfg:
        mem._card_present = cfg["card_present"]
    if "card_writable" in cfg:
        mem._card_writable = cfg["card_writable"]
    if cfg.get("rom"):
        mem.load_rom(ArrBuf("rom", cfg["rom"]))
    cfg = dict(cfg)
    for key in ("ram", "romov"):
        if cfg.get(key) and cfg[key][0] == "sym":
            n = cfg[key][1]
            cache = eng.__dict__.setdefault("_cfg_syms", {})
            if key not in cache:
                s = eng.fresh(f"{key}_start", 20)
                # the overlay lies inside the external space and clear of the card and ROM windows
                eng.assume(z3.And(T(s) + n <= 0xC0000, z3.Or(T(s) + n <= 0x40000, T(s) >= 0x50000)))
                cache[key] = s
            cfg[key] = (cache[key], n)
    mem._cfg = cfg
    if cfg.get("ram"):
        s, n = cfg["ram"]
        mem.add_ram(s, n, "extra_ram")
        for ov in mem._bus._overlays:
            if ov.name == "extra_ram":
                ov.data = ArrBuf("xram", n)
    if cfg.get("romov"):
        s, n = cfg["romov"]
        mem.add_rom(s, ArrBuf("xrom", n), "extra_rom")
    return mem


def canon(a):
    """Canonical location of a 32-bit address (property C11: 24-bit wrap; internal iff >= 0x100000,
    offset & 0xFF; external & 0xFFFFF).  Returned as one integer: internal cells at 0x100000+off."""
    x = T(a) & 0xFFFFFF
    return z3.If(z3.UGE(x, 0x100000), 0x100000 + (x & 0xFF), x & 0xFFFFF)


def alias_witness(a, b):
    """Witness class of the known finding C11-internal-ram-stored-in-external: one address is an
    internal-memory cell k and the other is external 0xFFF00+k (the last 256 bytes of the 1 MiB
    image, where PCE500Memory keeps the internal RAM)."""
    def internal(x):
        return z3.UGE(x & 0xFFFFFF, 0x100000)

    def ext_tail(x):
        return z3.And(z3.ULT(x & 0xFFFFFF, 0x100000), z3.UGE(x & 0xFFFFF, 0xFFF00))
    same_low = (a & 0xFF) == (b & 0xFF)
    return z3.And(same_low, z3.Or(z3.And(internal(a), ext_tail(b)), z3.And(internal(b), ext_tail(a))))


def writable(cfg, c):
    """Is canonical location c a RAM location in this configuration (specification map)?"""
    ro = []
    if cfg.get("rom"):
        ro.append(z3.And(z3.UGE(c, 0xC0000), z3.ULE(c, 0xFFFFF)))
    if cfg.get("romov"):
        s, n = cfg["romov"]
        in_rom = z3.And(z3.UGE(c, T(s)), z3.ULT(c, T(s) + n))
        if cfg.get("ram") and isinstance(s, int) and isinstance(cfg["ram"][0], int):
            # overlapping overlays: the bus serves the overlay that sorts first by (start, end, name);
            # a RAM window that sorts before the ROM stub shadows it where they overlap
            rs, rn = cfg["ram"]
            if (rs, rs + rn - 1, "extra_ram") < (s, s + n - 1, "extra_rom"):
                in_rom = z3.And(in_rom, z3.Not(z3.And(z3.UGE(c, rs), z3.ULT(c, rs + rn))))
        ro.append(in_rom)
    if cfg.get("card_present") is False or cfg.get("card_writable") is False:
        ro.append(z3.And(z3.UGE(c, 0x40000), z3.ULE(c, 0x4FFFF)))
    elif cfg.get("card_size"):
        # the slot window behind the end of a small card holds no memory (reads are constant, stores are dropped)
        ro.append(z3.And(z3.UGE(c, 0x40000 + cfg["card_size"]), z3.ULE(c, 0x4FFFF)))
    return z3.Not(z3.Or(ro)) if ro else z3.BoolVal(True)


def unit_laws(unit):
    PM = _setup()
    cfg = CONFIGS[unit["config"]]
    known = unit.get("known", ())
    t0 = time.time()
    run = core.Run(max_paths=8000, wall_s=500)

    def body(eng):
        mem = build(eng, PM, cfg)
        a, b, v = eng.fresh("a", 32), eng.fresh("b", 32), eng.fresh("v", 8)
        r0 = mem.read_byte(b)
        ra0 = mem.read_byte(a)
        mem.write_byte(a, v)
        r1 = mem.read_byte(a)
        r2 = mem.read_byte(b)
        ca, cb = canon(a), canon(b)
        wr = writable(mem._cfg, ca)

        def P(name, cond, detail=None):
            r = eng.prove(name, cond, detail=detail)
            if r is False:
                for e in known:
                    m = e.get("match", {})
                    if "witness" not in m:
                        continue
                    import re
                    if not re.search(m.get("obligation", ""), name):
                        continue
                    wit = eval(m["witness"], {"__builtins__": {}, "z3": z3, "alias_witness": alias_witness}, dict(eng.inputs))
                    r2_ = eng.prove(name + "@outside-known-witness", z3.Or(wit, cond), detail=detail)
                    o = eng.run.obligations[-2]
                    aux = eng.run.obligations.pop()
                    if r2_:
                        o.name = name + "@known:" + e["id"]
                    else:
                        o.model = aux.model
                    break
            return r

        P("rw:read-back", z3.Implies(wr, T(r1) == T(v)), "a byte written to a RAM location is read back")
        P("ro:write-ignored", z3.Implies(z3.Not(wr), T(r1) == T(ra0)), "a write to ROM / a read-only window does not change what is read there")
        P("frame:other-locations", z3.Implies(ca != cb, T(r2) == T(r0)), "no other canonical location changes (internal and external never alias)")
        P("frame:ro-write-changes-nothing", z3.Implies(z3.Not(wr), T(r2) == T(r0)))
        P("canon:same-location-same-value", z3.Implies(ca == cb, T(r2) == T(r1)), "all aliases of a location read the same value")
        return "laws"

    status, err = "ok", None
    try:
        core.explore(body, run=run)
    except core.Undecided as e:
        status, err = "undecided", str(e)
    except core.EngineError as e:
        status, err = "engine-error", str(e)
    return _report(run, unit, t0, status, err, {"laws": len(run.results)})


def unit_le(unit):
    """read_bytes/write_bytes/read_word/write_word/read_long/write_long = little-endian composition
    of byte accesses at address, address+1, ..."""
    PM = _setup()
    cfg = CONFIGS[unit["config"]]
    size = unit["size"]
    t0 = time.time()
    run = core.Run(max_paths=20000, wall_s=800)

    def body(eng):
        mem = build(eng, PM, cfg)
        a = eng.fresh("a", 32)
        val = eng.fresh("val", 8 * size)
        # loads
        bs = [mem.read_byte(a + i) for i in range(size)]
        want = 0
        for i, x in enumerate(bs):
            want = want | (x << (8 * i))
        got = mem.read_bytes(a, size)
        eng.prove(f"le:read_bytes{size}", T(got) == T(want))
        if size == 2:
            eng.prove("le:read_word", T(mem.read_word(a)) == T(want))
        if size == 3:
            eng.prove("le:read_long", T(mem.read_long(a)) == T(want))
        # stores: compare the resulting images of two fresh memories
        m1 = build(eng, PM, cfg)
        m2 = build(eng, PM, cfg)
        {1: None}.get(0)
        if size == 2 and unit.get("api") == "word":
            m1.write_word(a, val)
        elif size == 3 and unit.get("api") == "long":
            m1.write_long(a, val)
        else:
            m1.write_bytes(size, a, val)
        for i in range(size):
            m2.write_byte(a + i, (val >> (8 * i)) & 0xFF)
        k = z3.BitVec("k!frame", W)
        for nm in ("external_memory", "_card_data"):
            eng.prove(f"le:store{size}:{nm}", z3.Select(getattr(m1, nm).arr, k) == z3.Select(getattr(m2, nm).arr, k))
        for o1, o2 in zip(m1._bus._overlays, m2._bus._overlays):
            if isinstance(o1.data, ArrBuf):
                eng.prove(f"le:store{size}:{o1.name}", z3.Select(o1.data.arr, k) == z3.Select(o2.data.arr, k))
        return "le"

    status, err = "ok", None
    try:
        core.explore(body, run=run)
    except core.Undecided as e:
        status, err = "undecided", str(e)
    except core.EngineError as e:
        status, err = "engine-error", str(e)
    return _report(run, unit, t0, status, err, {"le": len(run.results)})
