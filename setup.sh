#!/bin/sh
# Build the overlay venv (python 3.12 of /venv + z3-solver/jsonschema from the offline wheelhouse).
set -e
HERE="$(cd "$(dirname "$0")" && pwd)"
V="$HERE/.venv"
if [ -x "$V/bin/python" ] && "$V/bin/python" -c "import z3, jsonschema, lark, binja_test_mocks" 2>/dev/null; then
  exit 0
fi
rm -rf "$V"
/venv/bin/python -m venv "$V"
PIP_NO_INDEX=1 "$V/bin/python" -m pip install -q --no-index --find-links /opt/veriftools/wheels z3-solver jsonschema >/dev/null
SP="$("$V/bin/python" -c 'import sysconfig;print(sysconfig.get_paths()["purelib"])')"
echo "import site; site.addsitedir('/venv/lib/python3.12/site-packages')" > "$SP/zz_repo_deps.pth"
"$V/bin/python" -c "import z3, jsonschema, lark, binja_test_mocks; print('venv ok', z3.get_version_string())"
