"""Import the repository under proof and install the namespace shims."""
from __future__ import annotations

import importlib
import os
import sys

REPO = os.environ.get("VERIF_REPO", "/repo")
_done = False

SHIMMED = [
    "binja_test_mocks.eval_llil",
    "binja_test_mocks.coding",
    "sc62015.pysc62015.emulator",
    "sc62015.pysc62015.cached_decoder",
    "sc62015.pysc62015.instr.opcodes",
    "sc62015.pysc62015.instr.instructions",
    "sc62015.pysc62015.intrinsics",
    "sc62015.arch",
]


def setup(extra=()):
    """Make `sc62015` / `pce500` importable from REPO (current working tree), load the Binary
    Ninja mocks, and rebind int/isinstance/bytearray/bytes/struct/bool in the modules under
    proof.  Idempotent."""
    global _done
    os.environ["FORCE_BINJA_MOCK"] = "1"
    if sys.path[0] != REPO:
        if REPO in sys.path:
            sys.path.remove(REPO)
        sys.path.insert(0, REPO)
    from binja_test_mocks import binja_api  # noqa: F401
    if os.environ.get("SYMX_NO_SHIMS") == "1":
        # replay mode without instrumentation: plain imports of the real modules
        mods = [importlib.import_module(name) for name in list(SHIMMED) + list(extra)]
        _done = True
        return mods
    from . import shims
    if os.environ.get("SYMX_NO_CONSTMERGE") != "1":
        from . import astpass
        astpass.load_module_transformed("binja_test_mocks.eval_llil", [astpass.ConstMerge()])
    mods = []
    for name in list(SHIMMED) + list(extra):
        m = importlib.import_module(name)
        if not getattr(m, "__file__", "").startswith(REPO) and name.startswith(("sc62015", "pce500")):
            raise RuntimeError(f"{name} imported from {m.__file__}, expected under {REPO}")
        shims.install(m)
        mods.append(m)
    opc = sys.modules["sc62015.pysc62015.instr.opcodes"]
    if not isinstance(opc.IMEMRegisters, shims.EnumByValueProxy):
        opc.IMEMRegisters = shims.EnumByValueProxy(opc.IMEMRegisters)
    _done = True
    return mods
