"""Engine self-test, run before every check.  Any failure => exit 3 (no verdict is believed)."""
from __future__ import annotations

import random
import struct as _struct
import sys

import z3

from . import core, shims
from .containers import SymBuf, SymMem
from .core import SymBool, SymInt, T, explore


def _val(x):
    t = z3.simplify(T(x))
    if z3.is_bv_value(t):
        return t.as_signed_long()
    if z3.is_int_value(t):
        return t.as_long()
    raise AssertionError(f"not a value: {t}")


def _const(v):
    return SymInt(z3.BitVecVal(v, core.W), v, v)


OPS2 = ["+", "-", "*", "&", "|", "^", "<<", ">>", "//", "%"]
CMPS = ["<", "<=", ">", ">=", "==", "!="]


def _rand_expr(rng, depth):
    if depth == 0 or rng.random() < 0.3:
        v = rng.choice([0, 1, 2, 3, 7, 8, 15, 16, 0x7F, 0x80, 0xFF, 0x100, 0xFFFF, 0xFFFFF, 0x100000, 0xFFFFFF,
                        -1, -2, -128, -0x100, rng.randrange(-(1 << 24), 1 << 24)])
        return ("c", v)
    k = rng.random()
    if k < 0.1:
        return ("~", _rand_expr(rng, depth - 1))
    if k < 0.2:
        return ("neg", _rand_expr(rng, depth - 1))
    if k < 0.3:
        return ("ite", rng.choice(CMPS), _rand_expr(rng, depth - 1), _rand_expr(rng, depth - 1),
                _rand_expr(rng, depth - 1), _rand_expr(rng, depth - 1))
    return (rng.choice(OPS2), _rand_expr(rng, depth - 1), _rand_expr(rng, depth - 1))


class _Skip(Exception):
    pass


def _ev(e, sym):
    k = e[0]
    if k == "c":
        return _const(e[1]) if sym else e[1]
    if k == "~":
        return ~_ev(e[1], sym)
    if k == "neg":
        return -_ev(e[1], sym)
    if k == "ite":
        a, b = _ev(e[2], sym), _ev(e[3], sym)
        c = {"<": a < b, "<=": a <= b, ">": a > b, ">=": a >= b, "==": a == b, "!=": a != b}[e[1]]
        x, y = _ev(e[4], sym), _ev(e[5], sym)
        if sym:
            return core.ite(c, x, y)
        return x if c else y
    a, b = _ev(e[1], sym), _ev(e[2], sym)
    if k in ("<<", ">>"):
        bv = b if not sym else _val(b)
        if bv < 0 or bv > 40:
            raise _Skip()
    if k in ("//", "%"):
        bv = b if not sym else _val(b)
        if bv == 0:
            raise _Skip()
    r = {"+": lambda: a + b, "-": lambda: a - b, "*": lambda: a * b, "&": lambda: a & b, "|": lambda: a | b,
         "^": lambda: a ^ b, "<<": lambda: a << b, ">>": lambda: a >> b, "//": lambda: a // b, "%": lambda: a % b}[k]()
    if not sym and abs(r) >= (1 << 61):
        raise _Skip()
    return r


def t_proxy_differential(n=400):
    rng = random.Random(12345)
    done = 0
    run = core.Run()

    def body(eng):
        nonlocal done
        for _ in range(n):
            e = _rand_expr(rng, 4)
            try:
                want = _ev(e, False)
            except (_Skip, ZeroDivisionError, ValueError, OverflowError):
                continue
            try:
                got = _val(_ev(e, True))
            except _Skip:
                continue
            if want != got:
                raise AssertionError(f"proxy/int mismatch on {e}: int={want} proxy={got}")
            done += 1
        return done

    explore(body, run=run)
    assert done > n // 3, f"too few differential cases ran ({done})"
    # overflow accounting: silent on 32-bit style arithmetic, loud on a real 64-bit wrap
    run2 = core.Run()

    def body2(eng):
        a = eng.fresh("a", 24)
        b = eng.fresh("b", 24)
        x = ((a + b) & 0xFFFFFF) | ((a << 8) ^ (b >> 3)) - (a * 3)
        return x

    explore(body2, run=run2)
    assert not run2.undecided, f"overflow accounting fired on in-range values: {run2.undecided[:2]}"
    run3 = core.Run()

    def body3(eng):
        a = eng.fresh("a", 32)
        return (a << 31) * 5

    explore(body3, run=run3)
    assert run3.undecided, "overflow accounting must flag a possible 64-bit wrap"
    return done


def t_shims():
    n = 0
    for fmt in ("<B", "<H", "B", "H", ">H"):
        size = _struct.calcsize(fmt)
        for v in (0, 1, 0x7F, 0xFF, 0x1234 & ((1 << (8 * size)) - 1)):
            raw = _struct.pack(fmt, v)
            assert shims.StructShim.unpack_from(fmt, bytearray(raw)) == _struct.unpack_from(fmt, raw)
            sb = SymBuf(list(raw))
            assert shims.StructShim.unpack_from(fmt, sb) == _struct.unpack_from(fmt, raw), fmt
            out = SymBuf([0] * size)
            shims.StructShim.pack_into(fmt, out, 0, v)
            assert bytes(out.items) == raw, fmt
            n += 3
    for x in (0, 5, True, "12", b"\x01"):
        if isinstance(x, (int, bool, str)):
            assert shims.IntShim(x) == int(x)
            n += 1
    assert shims.IntShim("ff", 16) == 255
    assert shims.isinstance_shim(3, shims.IntShim) and shims.isinstance_shim(True, shims.IntShim)
    assert not shims.isinstance_shim("x", shims.IntShim)
    assert shims.isinstance_shim(3, (str, shims.IntShim)) and shims.isinstance_shim(3, int)
    assert shims.isinstance_shim(bytearray(b"x"), shims.BytearrayShim)
    assert shims.BytearrayShim(3) == bytearray(3) and shims.BytearrayShim([1, 2]) == bytearray([1, 2])
    assert shims.BytesShim([1, 2]) == bytes([1, 2])
    assert shims.BoolShim(0) is False and shims.BoolShim(2) is True
    assert shims.IntShim.from_bytes(b"\x01\x02", "little") == 0x201
    return n + 10


def _prog(a, b, tab):
    """Small branching program used to compare exploration with brute force."""
    if a + b > 300:
        return ("big", (a + b) & 0xFF)
    if a == 7:
        return ("tab", tab[b & 3])
    if (a ^ b) & 1:
        return ("odd", a >> 1)
    return ("even", b % 5)


def t_exploration_exhaustive():
    tab = [11, 22, 33, 44]
    want = {}
    for a in range(256):
        for b in range(0, 256, 5):
            want[(a, b)] = _prog(a, b, tab)
    run = core.Run()
    seen = []

    def body(eng):
        a = eng.fresh("a", 8)
        b = eng.fresh("b", 8)
        r = _prog(a, b, tab)
        return (a, b, r, list(eng.pc))

    explore(body, run=run)
    # every concrete input must satisfy exactly one path condition, and that path's result term
    # must evaluate to the brute-force result
    paths = run.results
    assert len(paths) >= 4
    for (av, bv), res in list(want.items())[::37]:
        hits = 0
        for _, (a, b, r, pc) in paths:
            s = z3.Solver()
            s.add(T(a) == av, T(b) == bv, *pc)
            if s.check() == z3.sat:
                hits += 1
                m = s.model()
                kind, val = r
                got = m.eval(T(val), model_completion=True).as_long() if isinstance(val, (SymInt, SymBool)) else val
                assert (kind, got) == res, f"path result mismatch at a={av} b={bv}: {kind, got} vs {res}"
        assert hits == 1, f"input a={av} b={bv} lies on {hits} explored paths (must be exactly 1)"
    return len(paths)


def t_refutation_and_vacuity():
    run = core.Run()

    def body(eng):
        a = eng.fresh("a", 8)
        eng.prove("true-post", (a & 0xF) < 16)
        eng.prove("false-post", a != 200)     # fails exactly for a == 200
        return 0

    explore(body, run=run)
    st = {o.name: o for o in run.obligations}
    assert st["true-post"].status == "proved"
    assert st["false-post"].status == "failed" and st["false-post"].model["a"] == 200, st["false-post"].model
    # contradictory precondition => zero completed paths
    run2 = core.Run()

    def body2(eng):
        a = eng.fresh("a", 8)
        eng.assume(z3.And(T(a) > 10, T(a) < 5))
        eng.prove("unreachable", False)
        return 0

    explore(body2, run=run2)
    assert len(run2.results) == 0 and not run2.obligations, "vacuous precondition must yield zero paths"
    return 3


def t_memory_and_cut_log():
    run = core.Run()

    def body(eng):
        m = SymMem("m", eng)
        a = eng.fresh("a", 20)
        v = eng.fresh("v", 8)
        m.write(a, v)
        r = m.read(a + 0)
        eng.prove("rw", r == v)
        b = eng.fresh("b", 20)
        eng.prove("frame", z3.Implies(T(a) != T(b), m.now(b) == m.cell(b)))
        eng.prove("alias-must-fail", m.now(b) == m.cell(b))
        raise core.Cut()

    explore(body, run=run)
    st = {o.name: o.status for o in run.obligations}
    assert st == {"rw": "proved", "frame": "proved", "alias-must-fail": "failed"}, st
    assert len(run.results) == 0, "cut path must not produce a result but keep its obligations"
    return 3


def t_no_int_subclass():
    assert not issubclass(SymInt, int) and not issubclass(SymBool, int)
    run = core.Run()

    def body(eng):
        a = eng.fresh("a", 2)
        return [10, 20, 30, 40][a]

    explore(body, run=run)
    assert sorted(r for _, r in run.results) == [10, 20, 30, 40], "symbolic index must enumerate all values"
    return 1


def t_swallowed_exception_monitor():
    run = core.Run()

    def body(eng):
        a = eng.fresh("a", 8)
        try:
            {}.get(SymBuf([a]))          # unhashable proxy: CPython raises TypeError
        except Exception:                # ... which the code under proof might swallow
            pass
        return 0

    explore(body, run=run)
    assert run.undecided and "monitor" in run.undecided[0], "a swallowed proxy TypeError must make the unit undecided"
    return 1


def t_constmerge_equivalence(n=300):
    """The constant-arm merge of the third-party IL evaluator computes, on concrete values, exactly
    what the untouched module computes (shift/rotate helpers, the arithmetic/logic evaluators'
    flags), and a symbolic test gives the ite of both arms."""
    import ast
    import importlib.util
    import random
    from . import astpass
    os_env = __import__("os").environ
    os_env["FORCE_BINJA_MOCK"] = "1"
    from binja_test_mocks import binja_api  # noqa: F401
    spec = importlib.util.find_spec("binja_test_mocks.eval_llil")
    src = open(spec.origin).read()
    import sys
    import types
    mods = []
    for nm in ("binja_test_mocks.symx_plain_eval", "binja_test_mocks.symx_merged_eval"):
        m = types.ModuleType(nm)
        m.__package__ = "binja_test_mocks"
        m.__file__ = spec.origin
        sys.modules[nm] = m
        mods.append(m)
    plain, merged = mods[0].__dict__, mods[1].__dict__
    exec(compile(ast.parse(src), spec.origin, "exec"), plain)
    tree = astpass.ConstMerge().visit(ast.parse(src))
    ast.fix_missing_locations(tree)
    merged.update(astpass.HOOKS)
    exec(compile(tree, spec.origin, "exec"), merged)
    assert astpass.ConstMerge.count >= 10, "the pass found no `K1 if c else K2` to merge: evaluator source changed?"
    rnd = random.Random(7)
    k = 0
    for _ in range(n):
        size = rnd.choice((1, 2, 3, 4))
        val = rnd.randrange(1 << (8 * size))
        cnt = rnd.choice((0, 1, 2, 3, 4, 7, 8, 9, 15, 16, 24, 31))
        for fn in ("_lsl_impl", "_lsr_impl"):
            assert plain[fn](size, val, cnt) == merged[fn](size, val, cnt), (fn, size, val, cnt)
            k += 1
        for fn in ("_rotate_impl",):
            for left in (True, False):
                assert plain[fn](size, val, cnt, left=left) == merged[fn](size, val, cnt, left=left)
                k += 1
    # a symbolic test yields the ite term, not a fork
    run = core.Run()

    def body(eng):
        a = eng.fresh("a", 8)
        r = merged["__symx_ite"](a == 0, 1, 0)
        eng.prove("ite", core.T(r) == z3.If(core.T(a) == 0, z3.BitVecVal(1, core.W), z3.BitVecVal(0, core.W)))
        return 0

    explore(body, run=run)
    assert run.stats.paths == 1 and all(o.status == "proved" for o in run.obligations)
    return k + 1


def t_arrbuf_slices(n=60):
    """Array-backed buffer: copies, long slices and slice assignment agree with a real bytearray on
    random concrete scripts (every cell compared), and a copy does not alias its source."""
    import random
    from symx.containers import ArrBuf
    rng = random.Random(7)
    checked = 0
    for _ in range(n):
        size = rng.choice([70, 130, 300])
        ref = bytearray(rng.randrange(256) for _ in range(size))
        buf = ArrBuf("t", size)
        for i, v in enumerate(ref):
            buf[i] = v
        other_ref = bytearray(rng.randrange(256) for _ in range(size))
        other = ArrBuf("o", size)
        for i, v in enumerate(other_ref):
            other[i] = v
        for _ in range(6):
            op = rng.randrange(5)
            a = rng.randrange(-size, size)
            b = rng.randrange(-size, size + 20)
            sl = slice(rng.choice([None, a]), rng.choice([None, b]))
            lo, hi, _st = sl.indices(size)
            if op == 0 and hi - lo > 64:
                src_sl = slice(lo, hi)
                buf[sl] = other[src_sl]
                ref[sl] = other_ref[src_sl]
            elif op == 1:
                c = buf.copy()
                c[0] = (ref[0] + 1) & 0xFF          # must not reach buf
            elif op == 2 and hi - lo > 64:
                view = buf[sl]
                want = ref[sl]
                assert len(view) == len(want)
                for k in rng.sample(range(len(want)), 5):
                    got = z3.simplify(z3.Select(view.arr, z3.BitVecVal(k, core.W))).as_long()
                    assert got == want[k], ("slice", sl, k, got, want[k])
                    checked += 1
            elif op == 3:
                buf[:] = other.copy()
                ref[:] = other_ref
            else:
                k = rng.randrange(size)
                v = rng.randrange(256)
                buf[k] = v
                ref[k] = v
        for k in range(size):
            got = z3.simplify(z3.Select(buf.arr, z3.BitVecVal(k, core.W))).as_long()
            assert got == ref[k], ("cell", k, got, ref[k])
            checked += 1
    return checked


TESTS = [t_arrbuf_slices, t_proxy_differential, t_shims, t_exploration_exhaustive, t_refutation_and_vacuity,
         t_memory_and_cut_log, t_no_int_subclass, t_swallowed_exception_monitor, t_constmerge_equivalence]


def main(quiet=False):
    ok = True
    total = 0
    for t in TESTS:
        try:
            n = t()
            total += n or 0
            if not quiet:
                print(f"selftest {t.__name__}: ok ({n})")
        except BaseException as e:  # noqa: BLE001
            ok = False
            print(f"selftest {t.__name__}: FAILED: {type(e).__name__}: {e}")
    if not quiet or not ok:
        print("selftest:", "ok" if ok else "FAILED", total)
    return 0 if ok else 3


if __name__ == "__main__":
    sys.exit(main())
