"""Mechanical, semantics-preserving re-derivation of named functions from their real source
(inspect.getsource of the function object imported from the working tree, on every run).

Passes:
  BytesJoin : b"..".join(x)            -> __symx_join(b"..", x)      (CPython's bytes.join rejects proxies)
  Merge     : `a if c else b`, `not x` -> __symx_ite / __symx_not    (value-level merge instead of a fork)
  LoopRule  : while/for with a registered invariant -> havoc/assume/assert/cut (see loops.py)

What a pass drops: nothing; every other statement is compiled unchanged in the function's own
module globals.  If the source cannot be fetched or a keyed construct (loop ordinal) is missing
the result is `Undecided`, never a verdict."""
from __future__ import annotations

import ast
import inspect
import textwrap

from . import core
from .containers import SymBuf


def _join(sep, parts):
    parts = list(parts)
    if any(isinstance(p, SymBuf) for p in parts):
        if sep not in (b"", bytearray()):
            raise core.Unsupported("bytes.join with a non-empty separator on symbolic chunks")
        out = []
        for p in parts:
            out.extend(list(p.items) if isinstance(p, SymBuf) else list(p))
        return SymBuf(out)
    return sep.join(parts)


class BytesJoin(ast.NodeTransformer):
    def visit_Call(self, node):
        self.generic_visit(node)
        f = node.func
        if isinstance(f, ast.Attribute) and f.attr == "join" and isinstance(f.value, ast.Constant) \
                and isinstance(f.value.value, bytes) and len(node.args) == 1 and not node.keywords:
            return ast.copy_location(ast.Call(func=ast.Name(id="__symx_join", ctx=ast.Load()),
                                              args=[f.value, node.args[0]], keywords=[]), node)
        return node


class Merge(ast.NodeTransformer):
    """`a if c else b` -> __symx_ite(c, a, b) when both arms are side-effect free expressions
    (names, constants, attributes, subscripts, arithmetic); `not x` -> __symx_not(x)."""

    PURE = (ast.Name, ast.Constant, ast.Attribute, ast.BinOp, ast.UnaryOp, ast.Compare, ast.Subscript,
            ast.BoolOp, ast.IfExp, ast.Tuple)

    def _pure(self, n):
        for sub in ast.walk(n):
            if isinstance(sub, (ast.Call, ast.Await, ast.Yield, ast.YieldFrom, ast.NamedExpr, ast.Lambda)):
                if isinstance(sub, ast.Call) and isinstance(sub.func, ast.Name) and sub.func.id.startswith("__symx_"):
                    continue
                return False
        return True

    def visit_IfExp(self, node):
        self.generic_visit(node)
        if self._pure(node.body) and self._pure(node.orelse):
            return ast.copy_location(ast.Call(func=ast.Name(id="__symx_ite", ctx=ast.Load()),
                                              args=[node.test, node.body, node.orelse], keywords=[]), node)
        return node

    def visit_UnaryOp(self, node):
        self.generic_visit(node)
        if isinstance(node.op, ast.Not):
            return ast.copy_location(ast.Call(func=ast.Name(id="__symx_not", ctx=ast.Load()),
                                              args=[node.operand], keywords=[]), node)
        return node


class ConstMerge(ast.NodeTransformer):
    """Module-wide, conservative form of Merge: `K1 if c else K2` with two literal constants becomes
    __symx_ite(c, K1, K2).  Literal arms cannot raise or have effects, so evaluating both is
    equivalent to evaluating one; for a concrete test core.ite returns exactly the arm CPython
    would have.  Removes the 2-way fork at every `1 if result == 0 else 0` flag computation."""

    count = 0

    def visit_IfExp(self, node):
        self.generic_visit(node)
        if isinstance(node.body, ast.Constant) and isinstance(node.orelse, ast.Constant):
            ConstMerge.count += 1
            return ast.copy_location(ast.Call(func=ast.Name(id="__symx_ite", ctx=ast.Load()),
                                              args=[node.test, node.body, node.orelse], keywords=[]), node)
        return node


def load_module_transformed(name, passes):
    """Import module `name` from its real source file with `passes` applied to the whole module AST.
    Must run before anything else imports the module."""
    import importlib.util
    import sys
    if name in sys.modules:
        m = sys.modules[name]
        if getattr(m, "__symx_transformed__", False):
            return m
        raise core.EngineError(f"{name} was imported before the source transform could be installed")
    spec = importlib.util.find_spec(name)
    src = open(spec.origin).read()
    tree = ast.parse(src, filename=spec.origin)
    for p in passes:
        tree = p.visit(tree)
    ast.fix_missing_locations(tree)
    mod = importlib.util.module_from_spec(spec)
    mod.__dict__.update(HOOKS)
    mod.__symx_transformed__ = True
    sys.modules[name] = mod
    try:
        exec(compile(tree, spec.origin, "exec"), mod.__dict__)
    except BaseException:
        del sys.modules[name]
        raise
    parent, _, leaf = name.rpartition(".")
    if parent and parent in sys.modules:
        setattr(sys.modules[parent], leaf, mod)
    return mod


HOOKS = {
    "__symx_join": _join,
    "__symx_ite": core.ite,
    "__symx_not": core.not_,
}


def rebuild(func, passes, extra_globals=None):
    """Return a new function object compiled from func's real source after the passes."""
    raw = getattr(func, "__func__", func)
    raw = inspect.unwrap(raw)
    try:
        src = textwrap.dedent(inspect.getsource(raw))
    except (OSError, TypeError) as e:
        raise core.Undecided(f"cannot fetch source of {func!r}: {e}")
    tree = ast.parse(src)
    fdef = tree.body[0]
    if not isinstance(fdef, (ast.FunctionDef,)):
        raise core.Undecided("source is not a plain function definition")
    fdef.decorator_list = [d for d in fdef.decorator_list
                           if isinstance(d, ast.Name) and d.id in ("staticmethod", "classmethod")]
    fdef.decorator_list = []
    for p in passes:
        tree = p.visit(tree)
    ast.fix_missing_locations(tree)
    g = dict(raw.__globals__)
    g.update(HOOKS)
    if extra_globals:
        g.update(extra_globals)
    code = compile(tree, filename=f"<symx:{raw.__qualname__}>", mode="exec")
    ns = {}
    exec(code, g, ns)
    new = ns[fdef.name]
    new.__symx_source__ = ast.unparse(tree)
    return new


# --------------------------------------------------------------------------- loop rule
class LoopSpec:
    """Invariant / variant of one loop, keyed by its ordinal (source order) in the function.

    inv(L, g)  -> SymBool/bool  : L = locals() of the function, g = ghost dict
    variant(L) -> SymInt        : must decrease and stay >= 0 while the loop runs
    ghosts     -> {name: init}  : ghost variables (e.g. iteration count k), havoced with the loop
    step(g)    -> new ghost dict after one iteration (the witness for the re-established invariant)
    """

    def __init__(self, inv, variant, ghosts=None, step=None):
        self.inv, self.variant, self.ghosts, self.step = inv, variant, dict(ghosts or {}), step or (lambda g: g)


class _LoopCtx:
    def __init__(self, specs, fresh):
        self.specs = specs
        self.fresh = fresh
        self.ghost = {}

    def enter(self, i, L):
        eng = core.current()
        spec = self.specs[i]
        g0 = dict(spec.ghosts)
        eng.prove(f"loop{i}:inv-entry", core._b(spec.inv(L, g0)))
        self.ghost[i] = {k: self.fresh(f"ghost{i}_{k}") for k in g0}

    def havoc(self, name):
        return self.fresh("havoc_" + name)

    def assume_inv(self, i, L):
        eng = core.current()
        eng.assume(core._b(self.specs[i].inv(L, self.ghost[i])))
        return self.specs[i].variant(L)

    def after_body(self, i, L, v0):
        eng = core.current()
        spec = self.specs[i]
        g1 = spec.step(self.ghost[i])
        eng.prove(f"loop{i}:inv-preserved", core._b(spec.inv(L, g1)))
        v1 = spec.variant(L)
        eng.prove(f"loop{i}:variant", core._b(core.and_(v0 >= 0, v1 < v0)))
        raise core.Cut()

    def exit_ghost(self, i):
        return self.ghost[i]


class LoopRule(ast.NodeTransformer):
    """while C: B   ==>
         __lc.enter(i, locals())                      # assert Inv (entry)
         <assigned targets of B> = __lc.havoc(...)    # havoc
         __v = __lc.assume_inv(i, locals())           # assume Inv, remember variant
         if C:
             B
             __lc.after_body(i, locals(), __v)        # assert Inv, assert variant decreases, cut
         # falls through with Inv and not C
    """

    def __init__(self, n_expected):
        self.ordinal = 0
        self.n_expected = n_expected

    def visit_While(self, node):
        self.generic_visit(node)
        i = self.ordinal
        self.ordinal += 1
        targets = []
        for n in ast.walk(ast.Module(body=node.body, type_ignores=[])):
            if isinstance(n, ast.AugAssign):
                targets.append(n.target)
            elif isinstance(n, ast.Assign):
                targets.extend(n.targets)
            elif isinstance(n, (ast.While, ast.For, ast.Return, ast.Break, ast.Continue, ast.Try, ast.With)):
                raise core.Undecided("loop body outside the loop-rule subset (nested loop / break / return)")
        seen, uniq = set(), []
        for t in targets:
            s = ast.unparse(t)
            if s not in seen:
                seen.add(s)
                uniq.append(t)
        pre = [f"__lc.enter({i}, locals())"]
        for t in uniq:
            pre.append(f"{ast.unparse(t)} = __lc.havoc({ast.unparse(t)!r})")
        pre.append(f"__symx_v{i} = __lc.assume_inv({i}, locals())")
        new = ast.parse("\n".join(pre)).body
        tail = ast.parse(f"__lc.after_body({i}, locals(), __symx_v{i})").body
        iff = ast.If(test=node.test, body=list(node.body) + tail, orelse=[])
        return new + [iff]


class ForEachSpec:
    """Fold invariant of `for X in ITER: B`, keyed by loop ordinal (for-loops counted separately).

    inv(L, k, items) -> SymBool/bool : must hold before the k-th element is processed (k concrete,
                                       0 <= k <= len(items)); L = locals() of the function
    havoc            : optional {target text: callable(fresh) -> value}; targets assigned in B that are not
                       listed are havoced with `fresh(name)`
    """

    def __init__(self, inv, havoc=None, only=None):
        # only: optional predicate on (k, n) selecting the positions this work unit explores (the work
        # units of one contract must cover 0..n between them; position n is the loop exit)
        self.inv, self.havoc, self.only = inv, dict(havoc or {}), only


class _ForEachCtx:
    def __init__(self, specs, fresh):
        self.specs, self.fresh = specs, fresh
        self.exit_k = {}

    def enter(self, i, L, items):
        core.current().prove(f"for{i}:inv-entry", core._b(self.specs[i].inv(L, 0, items)))

    def havoc(self, i, name):
        h = self.specs[i].havoc.get(name)
        return h(self.fresh) if h else self.fresh("havoc_" + name)

    def pick(self, i, L, items):
        """Arbitrary position k in 0..len(items): one engine fork per position (exhaustive)."""
        eng = core.current()
        n = len(items)
        only = self.specs[i].only
        ks = [k for k in range(n + 1) if only is None or only(k, n)]
        if not ks:
            raise core.PathAbort("no loop position selected for this work unit")
        k = ks[eng.choice(len(ks), tag=f"foreach{i}")]
        eng.assume(core._b(self.specs[i].inv(L, k, items)))
        self.exit_k[i] = k
        return k

    def after(self, i, L, k, items):
        core.current().prove(f"for{i}:inv-preserved", core._b(self.specs[i].inv(L, k + 1, items)),
                             detail=f"element {k} of {len(items)}")
        raise core.Cut()


class ForEachRule(ast.NodeTransformer):
    """for X in ITER: B   ==>
         __it = list(ITER)
         __fe.enter(i, locals(), __it)                 # assert Inv(0)
         <assigned targets of B> = __fe.havoc(i, ...)  # havoc
         __k = __fe.pick(i, locals(), __it)            # arbitrary k (exhaustive fork), assume Inv(k)
         if __k < len(__it):
             for X in (__it[__k],):                    # one real execution of B (continue = end of B)
                 B
             __fe.after(i, locals(), __k, __it)        # assert Inv(k+1); cut
         # falls through with Inv(len)
    The iterable must evaluate to a concrete finite sequence (only the data may be symbolic).
    Loops whose ordinal has no registered spec are left untouched (they run as they are)."""

    def __init__(self, specs):
        self.ordinal = 0
        self.specs = specs
        self.applied = 0

    def visit_For(self, node):
        self.generic_visit(node)
        i = self.ordinal
        self.ordinal += 1
        if i not in self.specs:
            return node
        self.applied += 1
        targets = []
        for n in ast.walk(ast.Module(body=node.body, type_ignores=[])):
            if isinstance(n, ast.AugAssign):
                targets.append(n.target)
            elif isinstance(n, ast.Assign):
                targets.extend(n.targets)
            elif isinstance(n, (ast.While, ast.For, ast.Return, ast.Break, ast.Try, ast.With)):
                raise core.Undecided("loop body outside the for-each-rule subset (nested loop / break / return)")
        if node.orelse:
            raise core.Undecided("for/else outside the for-each-rule subset")
        seen, uniq = set(), []
        for t in targets:
            s = ast.unparse(t)
            if s not in seen and isinstance(t, ast.Name):
                seen.add(s)
                uniq.append(t)
            elif not isinstance(t, ast.Name):
                raise core.Undecided(f"for-each rule: assignment to {s} (only local names can be havoced)")
        it, k = f"__symx_it{i}", f"__symx_fk{i}"
        pre = [f"{it} = list({ast.unparse(node.iter)})", f"__fe.enter({i}, locals(), {it})"]
        for t in uniq:
            pre.append(f"{t.id} = __fe.havoc({i}, {t.id!r})")
        pre.append(f"{k} = __fe.pick({i}, locals(), {it})")
        new = ast.parse("\n".join(pre)).body
        one = ast.For(target=node.target, iter=ast.parse(f"({it}[{k}],)", mode="eval").body, body=list(node.body), orelse=[])
        tail = ast.parse(f"__fe.after({i}, locals(), {k}, {it})").body
        iff = ast.If(test=ast.parse(f"{k} < len({it})", mode="eval").body, body=[one] + tail, orelse=[])
        return new + [iff]


class RangeSpec:
    """Invariant of `for _ in range(N): B` with a SYMBOLIC trip count N, keyed by for-loop ordinal.

    inv(L, j)          -> SymBool : holds before iteration j (j a ghost integer term, 0 <= j <= max(N, 0))
    havoc_state(L, fresh)         : replaces every heap location the body (and its callees) may modify by fresh
                                    values / ghosts; `covers` lists the attribute targets assigned directly in the
                                    body that it takes care of (anything else assigned there is Undecided)
    """

    def __init__(self, inv, havoc_state, covers=()):
        self.inv, self.havoc_state, self.covers = inv, havoc_state, tuple(covers)


class _RangeCtx:
    def __init__(self, specs, fresh):
        self.specs, self.fresh = specs, fresh
        self.ghost_j = {}

    def enter(self, i, L, n):
        core.current().prove(f"range{i}:inv-entry", core._b(self.specs[i].inv(L, 0)))

    def havoc(self, i, name):
        return self.fresh("havoc_" + name)

    def pick(self, i, L, n):
        eng = core.current()
        self.specs[i].havoc_state(L, self.fresh)
        j = self.fresh(f"ghost_j{i}")
        eng.assume(core._b(core.and_(j >= 0, core.or_(j <= n, j == 0))))
        eng.assume(core._b(self.specs[i].inv(L, j)))
        self.ghost_j[i] = j
        return j

    def after(self, i, L, j):
        eng = core.current()
        eng.prove(f"range{i}:inv-preserved", core._b(self.specs[i].inv(L, j + 1)))
        raise core.Cut()


class RangeRule(ast.NodeTransformer):
    """for V in range(N): B   (N symbolic, V unused or used only as the iteration number)  ==>
         __n = N
         __rg.enter(i, locals(), __n)              # assert Inv(0)
         <local names assigned in B> = havoc
         __j = __rg.pick(i, locals(), __n)         # heap havoc by the spec, ghost j, assume 0 <= j <= max(n,0) and Inv(j)
         if __j < __n:
             V = __j
             B                                     # `continue` is not supported here
             __rg.after(i, locals(), __j)          # assert Inv(j+1); cut
         # falls through with Inv(j) and j >= n, i.e. j == max(n, 0)
    """

    def __init__(self, specs):
        self.ordinal, self.specs, self.applied = 0, specs, 0

    def visit_For(self, node):
        self.generic_visit(node)
        i = self.ordinal
        self.ordinal += 1
        if i not in self.specs:
            return node
        it = node.iter
        if not (isinstance(it, ast.Call) and isinstance(it.func, ast.Name) and it.func.id == "range" and len(it.args) == 1 and not it.keywords):
            raise core.Undecided("range rule: the loop is not `for _ in range(N)`")
        if node.orelse or not isinstance(node.target, ast.Name):
            raise core.Undecided("range rule: for/else or a structured loop target")
        self.applied += 1
        names = []
        for n in ast.walk(ast.Module(body=node.body, type_ignores=[])):
            ts = [n.target] if isinstance(n, ast.AugAssign) else list(n.targets) if isinstance(n, ast.Assign) else []
            for t in ts:
                if isinstance(t, ast.Name):
                    if t.id not in names:
                        names.append(t.id)
                elif ast.unparse(t) not in self.specs[i].covers:
                    raise core.Undecided(f"range rule: body assigns {ast.unparse(t)}, which the registered heap havoc does not cover")
            if isinstance(n, (ast.While, ast.For, ast.Return, ast.Break, ast.Continue, ast.With)):
                raise core.Undecided("loop body outside the range-rule subset (nested loop / break / continue / return)")
        nn, j = f"__symx_n{i}", f"__symx_j{i}"
        pre = [f"{nn} = {ast.unparse(it.args[0])}", f"__rg.enter({i}, locals(), {nn})"]
        pre += [f"{x} = __rg.havoc({i}, {x!r})" for x in names]
        pre.append(f"{j} = __rg.pick({i}, locals(), {nn})")
        new = ast.parse("\n".join(pre)).body
        head = ast.parse(f"{node.target.id} = {j}").body
        tail = ast.parse(f"__rg.after({i}, locals(), {j})").body
        iff = ast.If(test=ast.parse(f"{j} < {nn}", mode="eval").body, body=head + list(node.body) + tail, orelse=[])
        return new + [iff]


def rebuild_with_range(func, specs, fresh, extra_passes=(), n_for=None):
    rule = RangeRule(specs)
    ctx = _RangeCtx(specs, fresh)
    new = rebuild(func, list(extra_passes) + [rule], extra_globals={"__rg": ctx})
    if rule.applied != len(specs) or (n_for is not None and rule.ordinal != n_for):
        raise core.Undecided(f"{func.__qualname__}: {rule.ordinal} for-loops found ({rule.applied} matched), "
                             f"{len(specs)} range invariants registered for {n_for} expected loops")
    return new, ctx


def rebuild_with_foreach(func, specs, fresh, extra_passes=(), n_for=None):
    """Apply the for-each rule to the for-loops of func named in `specs` (ordinal -> ForEachSpec).
    `n_for` (if given) is the number of for-loops the function is expected to contain; a mismatch,
    or a registered ordinal that does not exist, is Undecided."""
    rule = ForEachRule(specs)
    ctx = _ForEachCtx(specs, fresh)
    new = rebuild(func, list(extra_passes) + [rule], extra_globals={"__fe": ctx})
    if rule.applied != len(specs) or (n_for is not None and rule.ordinal != n_for):
        raise core.Undecided(f"{func.__qualname__}: {rule.ordinal} for-loops found ({rule.applied} matched), "
                             f"{len(specs)} fold invariants registered for {n_for} expected loops")
    return new, ctx


def rebuild_with_loops(func, specs, fresh, extra_passes=()):
    """Apply the loop rule to every while loop of func; `specs` maps loop ordinal -> LoopSpec.
    A mismatch between the number of loops and the registered ordinals is Undecided."""
    rule = LoopRule(len(specs))
    ctx = _LoopCtx(specs, fresh)
    new = rebuild(func, list(extra_passes) + [rule], extra_globals={"__lc": ctx})
    if rule.ordinal != len(specs):
        raise core.Undecided(f"{func.__qualname__}: {rule.ordinal} while-loops found, {len(specs)} invariants registered")
    return new, ctx


def count_loops(func):
    raw = inspect.unwrap(getattr(func, "__func__", func))
    try:
        tree = ast.parse(textwrap.dedent(inspect.getsource(raw)))
    except (OSError, TypeError) as e:
        raise core.Undecided(f"cannot fetch source of {func!r}: {e}")
    return sum(isinstance(n, (ast.While, ast.For)) for n in ast.walk(tree))
