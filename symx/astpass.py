"""Mechanical, semantics-preserving re-derivation of named functions from their real source
(inspect.getsource of the function object imported from the working tree, on every run).

Passes:
  BytesJoin : b"..".join(x)            -> __symx_join(b"..", x)      (CPython's bytes.join rejects proxies)
  Merge     : `a if c else b`, `not x` -> __symx_ite / __symx_not    (value-level merge instead of a fork)
  LoopRule  : while/for with a registered invariant -> havoc/assume/assert/cut (see loops.py)

What a pass drops: nothing; every other statement is compiled unchanged in the function's own
module globals.  If the source cannot be fetched or a keyed construct (loop ordinal) is missing
the result is `Undecided`, never a verdict."""
from __future__ import annotations

import ast
import inspect
import textwrap

from . import core
from .containers import SymBuf


def _join(sep, parts):
    parts = list(parts)
    if any(isinstance(p, SymBuf) for p in parts):
        if sep not in (b"", bytearray()):
            raise core.Unsupported("bytes.join with a non-empty separator on symbolic chunks")
        out = []
        for p in parts:
            out.extend(list(p.items) if isinstance(p, SymBuf) else list(p))
        return SymBuf(out)
    return sep.join(parts)


class BytesJoin(ast.NodeTransformer):
    def visit_Call(self, node):
        self.generic_visit(node)
        f = node.func
        if isinstance(f, ast.Attribute) and f.attr == "join" and isinstance(f.value, ast.Constant) \
                and isinstance(f.value.value, bytes) and len(node.args) == 1 and not node.keywords:
            return ast.copy_location(ast.Call(func=ast.Name(id="__symx_join", ctx=ast.Load()),
                                              args=[f.value, node.args[0]], keywords=[]), node)
        return node


class Merge(ast.NodeTransformer):
    """`a if c else b` -> __symx_ite(c, a, b) when both arms are side-effect free expressions
    (names, constants, attributes, subscripts, arithmetic); `not x` -> __symx_not(x)."""

    PURE = (ast.Name, ast.Constant, ast.Attribute, ast.BinOp, ast.UnaryOp, ast.Compare, ast.Subscript,
            ast.BoolOp, ast.IfExp, ast.Tuple)

    def _pure(self, n):
        for sub in ast.walk(n):
            if isinstance(sub, (ast.Call, ast.Await, ast.Yield, ast.YieldFrom, ast.NamedExpr, ast.Lambda)):
                if isinstance(sub, ast.Call) and isinstance(sub.func, ast.Name) and sub.func.id.startswith("__symx_"):
                    continue
                return False
        return True

    def visit_IfExp(self, node):
        self.generic_visit(node)
        if self._pure(node.body) and self._pure(node.orelse):
            return ast.copy_location(ast.Call(func=ast.Name(id="__symx_ite", ctx=ast.Load()),
                                              args=[node.test, node.body, node.orelse], keywords=[]), node)
        return node

    def visit_UnaryOp(self, node):
        self.generic_visit(node)
        if isinstance(node.op, ast.Not):
            return ast.copy_location(ast.Call(func=ast.Name(id="__symx_not", ctx=ast.Load()),
                                              args=[node.operand], keywords=[]), node)
        return node


HOOKS = {
    "__symx_join": _join,
    "__symx_ite": core.ite,
    "__symx_not": core.not_,
}


def rebuild(func, passes, extra_globals=None):
    """Return a new function object compiled from func's real source after the passes."""
    raw = getattr(func, "__func__", func)
    raw = inspect.unwrap(raw)
    try:
        src = textwrap.dedent(inspect.getsource(raw))
    except (OSError, TypeError) as e:
        raise core.Undecided(f"cannot fetch source of {func!r}: {e}")
    tree = ast.parse(src)
    fdef = tree.body[0]
    if not isinstance(fdef, (ast.FunctionDef,)):
        raise core.Undecided("source is not a plain function definition")
    fdef.decorator_list = [d for d in fdef.decorator_list
                           if isinstance(d, ast.Name) and d.id in ("staticmethod", "classmethod")]
    fdef.decorator_list = []
    for p in passes:
        tree = p.visit(tree)
    ast.fix_missing_locations(tree)
    g = dict(raw.__globals__)
    g.update(HOOKS)
    if extra_globals:
        g.update(extra_globals)
    code = compile(tree, filename=f"<symx:{raw.__qualname__}>", mode="exec")
    ns = {}
    exec(code, g, ns)
    new = ns[fdef.name]
    new.__symx_source__ = ast.unparse(tree)
    return new
