"""Namespace shims: rebound in the globals of modules under proof (never in builtins).

Each shim behaves exactly like the builtin on concrete values (self-test: selftest.py) and
is the identity / a symbolic container on proxies."""
from __future__ import annotations

import builtins
import struct as _struct

import z3

from . import core
from .containers import BytearrayShim, BytesShim, SymBuf, ArrBuf
from .core import SymBool, SymInt, T


class _IntMeta(type):
    def __instancecheck__(cls, o):
        return builtins.isinstance(o, (builtins.int, SymInt, SymBool))

    def __call__(cls, x=0, *a, **k):
        if builtins.isinstance(x, SymInt):
            return x
        if builtins.isinstance(x, SymBool):
            return x._as_int()
        if builtins.isinstance(x, str) and "<sym#" in x:
            raise core.Unsupported("int() of text containing a symbolic placeholder")
        return builtins.int(x, *a, **k)

    def __eq__(cls, o):
        return o is builtins.int or o is cls

    def __hash__(cls):
        return hash(builtins.int)


class IntShim(metaclass=_IntMeta):
    from_bytes = staticmethod(lambda b, byteorder="big", *, signed=False: _from_bytes(b, byteorder, signed))


def _from_bytes(b, byteorder, signed):
    if builtins.isinstance(b, SymBuf):
        items = list(b.items)
        if signed:
            raise core.Unsupported("signed from_bytes")
        if byteorder == "big":
            items.reverse()
        v = 0
        for k, x in enumerate(items):
            v = v | (x << (8 * k))
        return v
    return builtins.int.from_bytes(b, byteorder, signed=signed)


class _BoolMeta(type):
    def __instancecheck__(cls, o):
        return builtins.isinstance(o, (builtins.bool, SymBool))

    def __call__(cls, x=False):
        if builtins.isinstance(x, SymBool):
            return x
        if builtins.isinstance(x, SymInt):
            return SymBool(x.t != core._zero_like(x.t))
        return builtins.bool(x)


class BoolShim(metaclass=_BoolMeta):
    pass


def _map_cls(c):
    if c is IntShim:
        return builtins.int
    if c is BoolShim:
        return builtins.bool
    if c is BytearrayShim:
        return builtins.bytearray
    if c is BytesShim:
        return builtins.bytes
    return c


def isinstance_shim(o, ci):
    if builtins.isinstance(ci, tuple):
        return any(isinstance_shim(o, c) for c in ci)
    c = _map_cls(ci)
    if builtins.isinstance(o, SymInt):
        return c is builtins.int or c is object or c is SymInt
    if builtins.isinstance(o, SymBool):
        return c in (builtins.int, builtins.bool, object) or c is SymBool
    if builtins.isinstance(o, SymBuf):
        return c in (builtins.bytearray, builtins.bytes, object) or c is SymBuf
    if builtins.isinstance(o, ArrBuf):
        return c in (builtins.bytearray, object) or c is ArrBuf
    return builtins.isinstance(o, c)


class StructShim:
    """struct.calcsize / unpack_from / pack_into / pack / unpack for the formats used by the
    repository ("<B", "<H", "B", "H" ...), little-endian composition over SymBuf."""
    error = _struct.error
    calcsize = staticmethod(_struct.calcsize)
    Struct = _struct.Struct

    @staticmethod
    def _fields(fmt):
        f = fmt.lstrip("<>=!@")
        big = fmt[:1] in (">", "!")
        sizes = {"B": 1, "H": 2, "I": 4, "b": 1, "h": 2, "i": 4}
        out = []
        for ch in f:
            if ch not in sizes:
                raise core.Unsupported(f"struct format {fmt!r}")
            out.append((ch, sizes[ch]))
        return out, big

    @staticmethod
    def unpack_from(fmt, buf, offset=0):
        if not builtins.isinstance(buf, SymBuf):
            return _struct.unpack_from(fmt, buf, offset)
        fields, big = StructShim._fields(fmt)
        res = []
        pos = offset
        for ch, n in fields:
            if ch.islower():
                raise core.Unsupported("signed struct field on symbolic data")
            if pos + n > len(buf):
                raise _struct.error("unpack_from requires a buffer of at least %d bytes" % (pos + n))
            bs = [buf[pos + k] for k in range(n)]
            if big:
                bs.reverse()
            v = 0
            for k, x in enumerate(bs):
                v = v | (x << (8 * k))
            res.append(v)
            pos += n
        return tuple(res)

    @staticmethod
    def unpack(fmt, buf):
        if builtins.isinstance(buf, SymBuf):
            if len(buf) != _struct.calcsize(fmt):
                raise _struct.error("unpack requires a buffer of %d bytes" % _struct.calcsize(fmt))
            return StructShim.unpack_from(fmt, buf, 0)
        return _struct.unpack(fmt, buf)

    @staticmethod
    def pack_into(fmt, buf, offset, *items):
        if not builtins.isinstance(buf, SymBuf) and not any(core.is_sym(i) for i in items):
            return _struct.pack_into(fmt, buf, offset, *items)
        fields, big = StructShim._fields(fmt)
        if len(fields) != len(items):
            raise _struct.error("pack_into expected %d items for packing (got %d)" % (len(fields), len(items)))
        pos = offset
        for (ch, n), item in zip(fields, items):
            if ch.islower():
                raise core.Unsupported("signed struct field on symbolic data")
            ok = (0 <= item) & (item < (1 << (8 * n))) if core.is_sym(item) else (0 <= item < (1 << (8 * n)))
            if not ok:   # forks on symbolic data: the out-of-range side raises like CPython
                raise _struct.error("'%s' format requires 0 <= number <= %d" % (ch, (1 << (8 * n)) - 1))
            bs = [(item >> (8 * k)) & 0xFF for k in range(n)]
            if big:
                bs.reverse()
            for k, b in enumerate(bs):
                buf[pos + k] = b
            pos += n

    @staticmethod
    def pack(fmt, *items):
        if not any(core.is_sym(i) for i in items):
            return _struct.pack(fmt, *items)
        buf = SymBuf([0] * _struct.calcsize(fmt))
        StructShim.pack_into(fmt, buf, 0, *items)
        return buf


SHIMS = {
    "int": IntShim,
    "bool": BoolShim,
    "isinstance": isinstance_shim,
    "bytearray": BytearrayShim,
    "bytes": BytesShim,
    "struct": StructShim,
}

_installed = {}


def install(mod, names=("int", "isinstance", "bytearray", "bytes", "struct", "bool")):
    """Rebind shim names in a module's globals (only those the module could resolve:
    builtins always, `struct` only when the module imported it)."""
    saved = _installed.setdefault(mod.__name__, {})
    for n in names:
        if n == "struct" and not hasattr(mod, "struct"):
            continue
        if n not in saved:
            saved[n] = mod.__dict__.get(n, _MISSING)
        setattr(mod, n, SHIMS[n])


_MISSING = object()


def uninstall_all():
    import sys
    for mname, saved in _installed.items():
        mod = sys.modules.get(mname)
        if mod is None:
            continue
        for n, v in saved.items():
            if v is _MISSING:
                mod.__dict__.pop(n, None)
            else:
                setattr(mod, n, v)
    _installed.clear()


class EnumByValueProxy:
    """Stands for an IntEnum class in one module's namespace.  Calls with a concrete value,
    item access, attribute access and iteration are delegated unchanged.  A call with a
    symbolic value forks two ways instead of 256: "is the value of some member" (returns a
    pseudo-member whose .name is a placeholder bound to the value term) or "no member"
    (raises ValueError like the real class).  That the member names map back to their values
    is a finite fact checked by evaluation elsewhere (spec.isa imem_names round trip)."""

    def __init__(self, real):
        object.__setattr__(self, "_real", real)

    def __call__(self, value, *a, **k):
        if builtins.isinstance(value, SymInt):
            vals = sorted({builtins.int(m) for m in self._real})
            hit = SymBool(z3.Or([value.t == v for v in vals]))
            if hit:
                return _PseudoMember(value)
            raise ValueError(f"symbolic value is not a valid {self._real.__name__}")
        return self._real(value, *a, **k)

    def __getitem__(self, k):
        return self._real[k]

    def __getattr__(self, k):
        return getattr(self._real, k)

    def __iter__(self):
        return iter(self._real)

    def __len__(self):
        return len(self._real)

    def __contains__(self, x):
        return x in self._real

    def __instancecheck__(self, o):
        return builtins.isinstance(o, self._real)


class _PseudoMember:
    def __init__(self, value):
        self.value = value

    @property
    def name(self):
        return core.current_placeholder(self.value, "NAME")

    def __index__(self):
        return self.value.__index__()

    def __int__(self):
        return self.value
