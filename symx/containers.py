"""Symbolic containers: SymBuf (bytearray contract) and SymMem (z3-array backed memory)."""
from __future__ import annotations

import builtins

import z3

from . import core
from .core import SymBool, SymInt, T, W, current


class SymBuf:
    """Contract of `bytearray` over symbolic bytes: a growable sequence of 8-bit values.

    Reads are logged (index set) so that footprint obligations can be stated."""

    def __init__(self, items=(), log=None):
        self.items = list(items)
        self.read_log = log if log is not None else set()

    def __len__(self):
        return len(self.items)

    def __getitem__(self, i):
        if isinstance(i, slice):
            idx = range(*i.indices(len(self.items)))
            self.read_log.update(idx)
            return SymBuf(self.items[i])
        if isinstance(i, SymInt):
            i = i.__index__()
        n = len(self.items)
        if i < 0:
            i += n
        if not 0 <= i < n:
            raise IndexError("bytearray index out of range")
        self.read_log.add(i)
        return self.items[i]

    def __setitem__(self, i, v):
        if isinstance(i, slice):
            self.items[i] = list(v)
            return
        if isinstance(i, SymInt):
            i = i.__index__()
        if isinstance(v, int) and not 0 <= v < 256:
            raise ValueError("byte must be in range(0, 256)")
        if isinstance(v, SymInt):
            core._require(z3.And(v.t >= 0, v.t < 256), "byte out of range(0,256)")
        self.items[i] = v

    def append(self, v):
        self.items.append(v)

    def extend(self, other):
        self.items.extend(list(other))

    def __iadd__(self, other):
        self.items.extend(list(other))
        return self

    def __add__(self, other):
        return SymBuf(self.items + list(other))

    def __iter__(self):
        self.read_log.update(range(len(self.items)))
        return iter(self.items)

    def __bool__(self):
        return bool(self.items)

    def eq_term(self, other):
        o = list(other.items if isinstance(other, SymBuf) else other)
        if len(o) != len(self.items):
            return z3.BoolVal(False)
        if not o:
            return z3.BoolVal(True)
        return z3.And([T(a) == T(b) for a, b in zip(self.items, o)])

    def __eq__(self, other):
        if not isinstance(other, (SymBuf, builtins.bytes, builtins.bytearray, list, tuple)):
            return NotImplemented
        c = z3.simplify(self.eq_term(other))
        if z3.is_true(c):
            return True
        if z3.is_false(c):
            return False
        return SymBool(c)

    def __ne__(self, other):
        r = self.__eq__(other)
        if r is NotImplemented:
            return r
        if isinstance(r, bool):
            return not r
        return SymBool(z3.Not(r.b))

    __hash__ = None

    def hex(self):
        return "".join(format(b, "02x") for b in self.items)

    def concrete(self):
        """Concrete bytes if every element is concrete, else None."""
        if all(isinstance(b, int) for b in self.items):
            return builtins.bytes(self.items)
        return None

    def __repr__(self):
        return "SymBuf(%d)" % len(self.items)


class ArrBuf:
    """Contract of a fixed-length `bytearray` whose content is a z3 array: symbolic index reads
    and writes without enumeration (memory images, card / ROM data)."""

    def __init__(self, name, n):
        self.name = name
        self.arr = z3.Array(name, z3.BitVecSort(W), z3.BitVecSort(8))
        self.init = self.arr
        self.n = n

    def __len__(self):
        return self.n

    def _chk(self, i):
        if isinstance(i, slice):
            raise core.Unsupported("slice of an array-backed buffer")
        if isinstance(i, int):
            if i < 0:
                i += self.n
            if not 0 <= i < self.n:
                raise IndexError("bytearray index out of range")
            return i
        core._require(z3.And(T(i) >= 0, T(i) < self.n), "array-backed buffer index out of range")
        return i

    def __getitem__(self, i):
        if isinstance(i, slice):
            return self._slice(i)
        i = self._chk(i)
        return SymInt(z3.ZeroExt(W - 8, z3.Select(self.arr, T(i))), 0, 255)

    COPY_ON_BYTEARRAY = False   # bytearray(ArrBuf) copies (needed where the copy is mutated); default: historical aliasing

    def copy(self):
        """bytes(buf) / bytearray(buf): a new buffer with the same content (the z3 term is shared, later
        stores go to the copy only)."""
        c = ArrBuf(self.name + "'", self.n)
        c.arr = self.arr
        c.init = self.arr
        return c

    def _bounds(self, sl):
        """Concrete (start, stop) of a slice with Python's clamping rules; None when symbolic."""
        if sl.step not in (None, 1):
            raise core.Unsupported("stepped slice of an array-backed buffer")
        start, stop = sl.start, sl.stop
        if not all(x is None or isinstance(x, int) for x in (start, stop)):
            return None
        start, stop, _ = slice(start, stop).indices(self.n)
        return start, max(start, stop)

    def _long_slice(self, start, stop):
        """buf[start:stop] with concrete bounds of any length: a new array-backed buffer whose cell i
        is cell start+i of this one (z3 lambda; no enumeration)."""
        c = ArrBuf(self.name + "[%d:%d]" % (start, stop), stop - start)
        i = z3.BitVec("i!slice", W)
        c.arr = z3.Lambda([i], z3.Select(self.arr, i + start))
        c.init = c.arr
        return c

    def _set_slice(self, sl, v):
        b = self._bounds(sl)
        if b is None:
            raise core.Unsupported("slice assignment to an array-backed buffer with symbolic bounds")
        start, stop = b
        n = stop - start
        if len(v) != n:
            raise core.Unsupported("slice assignment that would resize an array-backed buffer")
        if isinstance(v, ArrBuf):
            i = z3.BitVec("i!store", W)
            src = v.arr
            self.arr = z3.Lambda([i], z3.If(z3.And(i >= start, i < stop), z3.Select(src, i - start), z3.Select(self.arr, i)))
            return
        if n > 4096:
            raise core.Unsupported("long slice assignment from a non-array source")
        for k, x in enumerate(list(v)):
            self[start + k] = x

    def _slice(self, sl):
        """buf[a:b] with a symbolic start and a constant length (bulk loads)."""
        if sl.step not in (None, 1):
            raise core.Unsupported("stepped slice of an array-backed buffer")
        b = self._bounds(sl)
        if b is not None and b[1] - b[0] > 64:
            return self._long_slice(*b)
        start = 0 if sl.start is None else sl.start
        stop = self.n if sl.stop is None else sl.stop
        n = z3.simplify(T(stop) - T(start))
        if not z3.is_bv_value(n):
            raise core.Unsupported("slice of an array-backed buffer with a symbolic length")
        n = n.as_signed_long()
        if n <= 0:
            return SymBuf([])
        if n > 64:
            raise core.Unsupported("long slice of an array-backed buffer")
        # Python clamps slices to the buffer; inside the buffer it is n consecutive cells
        core._require(z3.And(T(start) >= 0, T(stop) <= self.n), "slice reaching outside the buffer")
        return SymBuf([SymInt(z3.ZeroExt(W - 8, z3.Select(self.arr, T(start) + k)), 0, 255) for k in range(n)])

    def __setitem__(self, i, v):
        if isinstance(i, slice):
            return self._set_slice(i, v)
        i = self._chk(i)
        if isinstance(v, int) and not 0 <= v < 256:
            raise ValueError("byte must be in range(0, 256)")
        if isinstance(v, SymInt):
            core._require(z3.And(v.t >= 0, v.t < 256), "byte out of range(0,256)")
        self.arr = z3.Store(self.arr, T(i), z3.Extract(7, 0, T(v)))

    def __bool__(self):
        return self.n > 0

    def now(self, i):
        return z3.Select(self.arr, T(i))

    def was(self, i):
        return z3.Select(self.init, T(i))


def _has_sym(x):
    return any(isinstance(b, (SymInt, SymBool)) for b in x)


def bytearray_shim(x=(), *a):
    """`bytearray` for modules under proof: identical on concrete data, SymBuf otherwise."""
    if isinstance(x, SymBuf):
        return SymBuf(x.items, x.read_log)
    if isinstance(x, ArrBuf):
        return x.copy() if ArrBuf.COPY_ON_BYTEARRAY else x
    if core._ENG is not None and not a and isinstance(x, (tuple, list)) and len(x) == 0:
        # an empty buffer created by code under proof (Encoder.buf) may later receive symbolic
        # bytes: start it as a SymBuf (a list-backed bytearray contract, exact on concrete bytes too)
        return SymBuf([])
    if isinstance(x, (int, builtins.bytes, builtins.bytearray, str)):
        return builtins.bytearray(x, *a)
    items = list(x)
    if _has_sym(items):
        return SymBuf(items)
    return builtins.bytearray(items)


class _BytearrayMeta(type):
    def __instancecheck__(cls, o):
        return isinstance(o, (builtins.bytearray, SymBuf, ArrBuf))

    def __call__(cls, *a):
        return bytearray_shim(*a)


class BytearrayShim(metaclass=_BytearrayMeta):
    pass


class _BytesMeta(type):
    def __instancecheck__(cls, o):
        return isinstance(o, (builtins.bytes, SymBuf)) or (isinstance(o, ArrBuf) and ArrBuf.COPY_ON_BYTEARRAY)

    def __call__(cls, x=b"", *a):
        if isinstance(x, SymBuf):
            return SymBuf(x.items, x.read_log)
        if isinstance(x, ArrBuf):
            return x.copy()
        if not isinstance(x, (int, builtins.bytes, builtins.bytearray, str)):
            items = list(x)
            if _has_sym(items):
                return SymBuf(items)
            return builtins.bytes(items)
        return builtins.bytes(x, *a)


class BytesShim(metaclass=_BytesMeta):
    pass


class SymMem:
    """Byte-addressed memory backed by a z3 array (64-bit index, 8-bit cells).

    `read(a)` / `write(a, v)` have the callback signature the repository's Memory class
    expects.  Every access is logged.  `cache` holds terms of cells at concrete addresses
    (preloaded instruction bytes, bytes written at concrete addresses); it is an
    optimisation only: the array term `arr` always carries the complete content and a store
    through a symbolic address empties the cache."""

    def __init__(self, name="mem", eng=None):
        eng = eng or current()
        self.name = name
        self.arr = z3.Array(name, z3.BitVecSort(W), z3.BitVecSort(8))
        self.init = self.arr
        eng.arrays[name] = self.arr
        self.cache = {}
        self.reads = []    # addr terms
        self.writes = []   # (addr_term, value_term8)

    def cell(self, a):
        """Initial-content term (8 bit) of address a (no logging)."""
        return z3.Select(self.init, T(a))

    def cell_int(self, a):
        return SymInt(z3.ZeroExt(W - 8, self.cell(a)), 0, 255)

    def now(self, a):
        return z3.Select(self.arr, T(a))

    def read(self, a):
        self.reads.append(T(a))
        if not isinstance(a, SymInt) and a in self.cache:
            return self.cache[a]
        raw = z3.Select(self.arr, T(a))
        v = z3.simplify(raw)
        if z3.is_bv_value(v):
            return v.as_long()
        # keep the select un-simplified: pushing it through the store chain would destroy the
        # syntactic shape that lets a proved array-equality lemma close the goal by congruence
        return SymInt(z3.ZeroExt(W - 8, raw), 0, 255)

    def write(self, a, v):
        vt = z3.Extract(7, 0, T(v))
        self.writes.append((T(a), vt))
        self.arr = z3.Store(self.arr, T(a), vt)
        if isinstance(a, SymInt):
            self.cache.clear()
        else:
            vs = z3.simplify(vt)
            self.cache[a] = vs.as_long() if z3.is_bv_value(vs) else SymInt(z3.ZeroExt(W - 8, vt), 0, 255)

    def preload(self, a, v):
        """Fix the initial content of concrete address a to v (int or SymInt)."""
        current().add(z3.Select(self.init, T(a)) == z3.Extract(7, 0, T(v)))
        self.cache[a] = v
