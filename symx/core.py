"""SYMX core: symbolic proxies + exhaustive path exploration of real Python functions.

The "program text" is the real function object imported from the repository; CPython
runs it on proxy values.  See DESIGN.md section 2.

Public surface:
    Engine, explore(), SymInt, SymBool, current(), Undecided, EngineError, PathAbort, Cut
    T(x) -> z3 term, sym(name,bits), prove(name, cond)
"""
from __future__ import annotations

import builtins
import hashlib
import os
import subprocess
import tempfile
import time

import z3

W = 64
LIM = 1 << 62
FULL = (-(1 << 63), (1 << 63) - 1)


# --------------------------------------------------------------------------- signals
class EngineSignal(BaseException):
    """Base of all engine signals.  BaseException so that `except Exception` in the
    code under proof cannot swallow them."""


class PathAbort(EngineSignal):
    """Current path is infeasible."""


class Cut(EngineSignal):
    """Path deliberately ended by a harness (loop rule, callee cut)."""


class Undecided(EngineSignal):
    """Budget exhausted / solver unknown / unsupported construct: no verdict."""


class EngineError(EngineSignal):
    """The engine itself misbehaved (decision log mismatch...)."""


class Unsupported(Undecided):
    pass


_ENG: "Engine | None" = None


def current() -> "Engine":
    if _ENG is None:
        raise EngineError("no active engine")
    return _ENG


# --------------------------------------------------------------------------- stats
class Stats:
    def __init__(self):
        self.paths = 0
        self.queries = 0
        self.solver_s = 0.0
        self.unknown = 0
        self.cvc5 = 0
        self.max_query_s = 0.0

    def merge(self, o):
        self.paths += o.paths
        self.queries += o.queries
        self.solver_s += o.solver_s
        self.unknown += o.unknown
        self.cvc5 += o.cvc5
        self.max_query_s = max(self.max_query_s, o.max_query_s)

    def as_dict(self):
        return dict(paths=self.paths, queries=self.queries, solver_s=round(self.solver_s, 3),
                    unknown=self.unknown, cvc5=self.cvc5, max_query_s=round(self.max_query_s, 3))


QUERY_TIMEOUT_MS = int(os.environ.get("SYMX_QUERY_TIMEOUT_MS", "4000"))
FRESH_TIMEOUT_MS = int(os.environ.get("SYMX_FRESH_TIMEOUT_MS", "60000"))


def _cvc5_check(smt2: str, timeout_s: int = 60):
    """Second opinion on a z3 `unknown`.  Returns 'sat' / 'unsat' / 'unknown'."""
    try:
        with tempfile.NamedTemporaryFile("w", suffix=".smt2", delete=False) as f:
            f.write("(set-logic ALL)\n" + smt2 + "\n(check-sat)\n")
            path = f.name
        try:
            out = subprocess.run(["/usr/bin/cvc5", "--tlimit=%d" % (timeout_s * 1000), path],
                                 capture_output=True, text=True, timeout=timeout_s + 5).stdout.strip()
        finally:
            os.unlink(path)
        first = out.splitlines()[0].strip() if out else "unknown"
        return first if first in ("sat", "unsat") else "unknown"
    except Exception:
        return "unknown"


# --------------------------------------------------------------------------- engine
class Obligation:
    __slots__ = ("name", "status", "model", "detail", "path", "backend", "seconds")

    def __init__(self, name, status, model=None, detail=None, path=None, backend="z3", seconds=0.0):
        self.name = name
        self.status = status  # 'proved' | 'failed' | 'unknown'
        self.model = model
        self.detail = detail
        self.path = path
        self.backend = backend
        self.seconds = seconds

    def as_dict(self):
        return dict(name=self.name, status=self.status, model=self.model, detail=self.detail,
                    backend=self.backend)


class Engine:
    """One engine instance per explored path."""

    def __init__(self, prefix, run):
        self.run = run
        self.solver = z3.Solver()
        self.solver.set("timeout", QUERY_TIMEOUT_MS)
        self.prefix = prefix
        self.trace = []
        self.pending = []
        self.inputs = {}      # name -> z3 const (for model extraction)
        self.model = None     # a model of the current path condition if known
        self.nfresh = 0
        self.placeholders = {}  # text -> (term, spec)
        self.notes = []
        self.pc = []          # list of z3 bool terms added
        self._cand = {}
        self.arrays = {}
        self.watch_cells = []   # (array term, address term): evaluated in counter-models
        self.watch_terms = []   # (label, term)

    # -- symbols
    def fresh(self, name, bits=8, signed=False):
        if name in self.inputs:
            raise EngineError(f"duplicate symbol {name}")
        if self.run.fixed is not None:
            # replay mode: every named input is the counter-model's concrete value (plain int)
            x = int(self.run.fixed.get(name, 0)) & ((1 << bits) - 1)
            self.inputs[name] = z3.BitVecVal(x, bits)
            if signed and x >= 1 << (bits - 1):
                x -= 1 << bits
            return x
        v = z3.BitVec(name, bits)
        self.inputs[name] = v
        if bits == W:
            return SymInt(v, *FULL)
        if signed:
            return SymInt(z3.SignExt(W - bits, v), -(1 << (bits - 1)), (1 << (bits - 1)) - 1)
        return SymInt(z3.ZeroExt(W - bits, v), 0, (1 << bits) - 1)

    def fresh_int(self, name):
        """Mathematical integer symbol (no width)."""
        if name in self.inputs:
            raise EngineError(f"duplicate symbol {name}")
        if self.run.fixed is not None:
            x = int(self.run.fixed.get(name, 0))
            self.inputs[name] = z3.IntVal(x)
            return x
        v = z3.Int(name)
        self.inputs[name] = v
        return SymInt(v, None, None)

    def fresh_bool(self, name):
        if self.run.fixed is not None:
            x = bool(self.run.fixed.get(name, False))
            self.inputs[name] = z3.BoolVal(x)
            return x
        v = z3.Bool(name)
        self.inputs[name] = v
        return SymBool(v)

    def anon(self, bits=8, tag="h"):
        self.nfresh += 1
        return self.fresh(f"_{tag}{self.nfresh}", bits)

    # -- solver plumbing
    def _check(self, *extra):
        st = self.run.stats
        st.queries += 1
        t0 = time.time()
        r = self.solver.check(*extra)
        dt = time.time() - t0
        st.solver_s += dt
        st.max_query_s = max(st.max_query_s, dt)
        if r == z3.unknown:
            st.unknown += 1
            # 1) a fresh (non-incremental) z3 instance often decides at once what the long-lived
            #    incremental one chokes on; 2) cvc5 as the second opinion
            s2 = z3.Solver()
            s2.set("timeout", FRESH_TIMEOUT_MS)
            s2.add(*self.solver.assertions())
            s2.add(*extra)
            t1 = time.time()
            r2 = s2.check()
            st.solver_s += time.time() - t1
            st.fresh = getattr(st, "fresh", 0) + 1
            if r2 == z3.unsat:
                return "unsat"
            if r2 == z3.sat:
                self._fresh_model = s2.model()
                return "sat-fresh"
            st.cvc5 += 1
            c = _cvc5_check(s2.to_smt2().replace("(check-sat)", ""))
            if c == "sat":
                return "sat-nomodel"
            if c == "unsat":
                return "unsat"
            raise Undecided("solver unknown: " + str(self.solver.reason_unknown()))
        return "sat" if r == z3.sat else "unsat"

    def add(self, cond):
        self.solver.add(cond)
        self.pc.append(cond)
        cand = self._cand.get(cond.get_id())
        self._cand = {}
        if cand is not None and cand[0].eq(cond):
            # the model found while testing feasibility of exactly this condition
            self.model = cand[1]
            return
        if self.model is not None:
            try:
                if not z3.is_true(self.model.eval(cond, model_completion=True)):
                    self.model = None
            except z3.Z3Exception:
                self.model = None

    def assume(self, cond):
        """Harness-level precondition; path is aborted if it becomes infeasible."""
        c = _b(cond)
        self.add(c)
        r = self._check()
        if r == "unsat":
            raise PathAbort()
        self.model = self._model_of(r)

    def _model_of(self, r):
        if r == "sat":
            return self.solver.model()
        if r == "sat-fresh":
            return self._fresh_model
        return None

    def feasible(self, cond):
        """Is pc ∧ cond satisfiable?  Uses the cached model when it already witnesses it."""
        if self.model is not None:
            try:
                if z3.is_true(self.model.eval(cond, model_completion=True)):
                    return True
            except z3.Z3Exception:
                pass
        r = self._check(cond)
        if r in ("sat", "sat-fresh"):
            self._cand[cond.get_id()] = (cond, self._model_of(r))   # keep cond alive: ids are reused
            return True
        return r != "unsat"

    # -- decisions
    def _sig(self, term):
        return term.hash() & 0xFFFFFFFF

    def branch(self, cond):
        cond = z3.simplify(cond)
        if z3.is_true(cond):
            return True
        if z3.is_false(cond):
            return False
        i = len(self.trace)
        sig = self._sig(cond)
        if i < len(self.prefix):
            kind, d, forced, psig = self.prefix[i]
            if kind != "br" or psig != sig:
                raise EngineError(f"decision log mismatch at {i}: expected {kind}/{psig:x}, got br/{sig:x}")
            self.trace.append(self.prefix[i])
            self.add(cond if d else z3.Not(cond))
            return d
        can_t = self.feasible(cond)
        can_f = self.feasible(z3.Not(cond))
        if can_t and can_f:
            self.pending.append(self.trace + [("br", False, False, sig)])
            self.trace.append(("br", True, False, sig))
            self.add(cond)
            return True
        if can_t:
            self.trace.append(("br", True, True, sig))
            self.add(cond)
            return True
        if can_f:
            self.trace.append(("br", False, True, sig))
            self.add(z3.Not(cond))
            return False
        raise PathAbort()

    def _model_value(self, term):
        if self.model is None:
            r = self._check()
            if r == "unsat":
                raise PathAbort()
            if r not in ("sat", "sat-fresh"):
                raise Undecided("no model available for concretisation")
            self.model = self._model_of(r)
        v = self.model.eval(term, model_completion=True)
        return v.as_long()

    def concretize(self, term, signed=True):
        """Exhaustive enumeration of the feasible values of `term` (one fork per value)."""
        term = z3.simplify(term)
        if z3.is_bv_value(term):
            return term.as_signed_long() if signed else term.as_long()
        if z3.is_int_value(term):
            return term.as_long()

        def conv(v):
            if z3.is_bv(term) and signed and v >= (1 << (term.size() - 1)):
                return v - (1 << term.size())
            return v

        i = len(self.trace)
        sig = self._sig(term)
        if i < len(self.prefix):
            kind, d, forced, psig = self.prefix[i]
            if psig != sig or kind not in ("val", "notin"):
                raise EngineError(f"decision log mismatch at {i}: expected {kind}/{psig:x}, got val/{sig:x}")
            if kind == "val":
                self.trace.append(self.prefix[i])
                self.add(term == d)
                return conv(d)
            excluded = d
            for x in excluded:
                self.add(term != x)
            r = self._check()
            if r == "unsat":
                raise PathAbort()
            self.model = self._model_of(r)
        else:
            excluded = ()
        v = self._model_value(term)
        other = self.feasible(term != v)
        if other:
            self.pending.append(self.trace + [("notin", excluded + (v,), False, sig)])
        self.trace.append(("val", v, not other and not excluded, sig))
        self.add(term == v)
        if len(excluded) + 1 > self.run.max_enum:
            raise Undecided(f"concretisation of a term with more than {self.run.max_enum} values")
        return conv(v)

    def choice(self, n, tag="choice"):
        """Non-deterministic choice among n alternatives (callee contract outcomes)."""
        i = len(self.trace)
        sig = hash((tag, n)) & 0xFFFFFFFF
        if i < len(self.prefix):
            kind, d, forced, psig = self.prefix[i]
            if kind != "choice" or psig != sig:
                raise EngineError("decision log mismatch (choice)")
            self.trace.append(self.prefix[i])
            return d
        for k in range(1, n):
            self.pending.append(self.trace + [("choice", k, False, sig)])
        self.trace.append(("choice", 0, n == 1, sig))
        return 0

    # -- obligations
    def prove(self, name, cond, detail=None):
        """Obligation: pc ⇒ cond.  Recorded in the run-global log."""
        c = _b(cond)
        t0 = time.time()
        if z3.is_true(z3.simplify(c)):
            ob = Obligation(name, "proved", backend="simplify")
            self.run.obligations.append(ob)
            return True
        backend = "z3"
        try:
            r = self._check(z3.Not(c))
        except Undecided as e:
            ob = Obligation(name, "unknown", detail=str(e), path=list(self.trace))
            self.run.obligations.append(ob)
            return None
        if r == "unsat":
            ob = Obligation(name, "proved", backend=backend, seconds=time.time() - t0)
            self.run.obligations.append(ob)
            return True
        model = None
        if r in ("sat", "sat-fresh"):
            m = self._model_of(r)
            model = {}
            for k, v in self.inputs.items():
                val = m.eval(v, model_completion=True)
                if z3.is_bv_value(val) or z3.is_int_value(val):
                    model[k] = val.as_long()
                elif z3.is_true(val) or z3.is_false(val):
                    model[k] = z3.is_true(val)
                else:
                    model[k] = str(val)
            cells = {}
            for arr, at in self.watch_cells:
                try:
                    av = m.eval(at, model_completion=True)
                    cv = m.eval(z3.Select(arr, av), model_completion=True)
                    if z3.is_bv_value(av) and z3.is_bv_value(cv):
                        cells[str(av.as_long())] = cv.as_long()
                except z3.Z3Exception:
                    pass
            model["@cells"] = cells
            for label, term in self.watch_terms:
                try:
                    v = m.eval(term, model_completion=True)
                    model["~" + label] = v.as_long() if z3.is_bv_value(v) else str(v)
                except z3.Z3Exception:
                    pass
        ob = Obligation(name, "failed", model=model, detail=detail, path=list(self.trace),
                        seconds=time.time() - t0)
        self.run.obligations.append(ob)
        return False

    def note(self, *a):
        self.notes.append(a)


def _array_model(m, arr):
    """Extract a finite description of an array interpretation from a model."""
    try:
        interp = m.eval(arr, model_completion=True)
        out = {}
        default = None
        cur = interp
        # unwind Store chains / K
        for _ in range(4096):
            if z3.is_store(cur):
                a, i, v = cur.children()
                if z3.is_bv_value(i) and z3.is_bv_value(v):
                    out.setdefault(i.as_long(), v.as_long())
                cur = a
            elif z3.is_const_array(cur):
                d = cur.children()[0]
                default = d.as_long() if z3.is_bv_value(d) else None
                break
            else:
                # as-array / lambda: sample nothing
                break
        return {"default": default, "cells": {str(k): v for k, v in sorted(out.items())}}
    except Exception as e:  # pragma: no cover
        return {"error": str(e)}


class Run:
    """State shared by all paths of one exploration."""

    def __init__(self, max_paths=20000, max_enum=300, wall_s=None):
        self.stats = Stats()
        self.obligations = []
        self.max_paths = max_paths
        self.max_enum = max_enum
        self.deadline = (time.time() + wall_s) if wall_s else None
        self.results = []
        self.undecided = []
        self.monitor_events = []
        # replay mode (props/replay.py): SYMX_FIX_INPUTS names a JSON file {input name: value}
        self.fixed = None
        p = os.environ.get("SYMX_FIX_INPUTS")
        if p:
            import json
            self.fixed = json.load(open(p))


_PROXY_WORDS = ("SymInt", "SymBool", "SymBuf", "ArrBuf", "SymMem", "SymGrid", "_Row", "_PseudoMember", "EnumByValueProxy")
_MON = {"installed": False, "run": None}


def _install_monitor():
    """Swallowed-exception monitor (DESIGN 2.7): a TypeError / AttributeError that CPython raises
    because a proxy reached an operation it does not model would not occur on concrete values, so
    the path being explored may not be a real one.  Code under proof often catches such errors
    (`except Exception: pass`); every such event therefore makes the work unit undecided."""
    if _MON["installed"]:
        return
    import sys
    mon = getattr(sys, "monitoring", None)
    if mon is None:
        return
    tool = mon.DEBUGGER_ID
    try:
        mon.use_tool_id(tool, "symx")
    except ValueError:
        return

    def on_raise(code, offset, exc):
        run = _MON["run"]
        if run is None or not isinstance(exc, (TypeError, AttributeError)):
            return
        msg = str(exc)
        if any(w in msg for w in _PROXY_WORDS):
            fname = code.co_filename
            if "/symx/" in fname and "selftest" not in fname:
                return      # raised inside the engine on purpose (NotImplemented paths etc.)
            ev = f"{type(exc).__name__}: {msg[:160]} @ {fname.rsplit('/', 1)[-1]}:{code.co_name}"
            if ev not in run.monitor_events:
                run.monitor_events.append(ev)

    mon.register_callback(tool, mon.events.RAISE, on_raise)
    mon.set_events(tool, mon.events.RAISE)
    _MON["installed"] = True


def explore(fn, max_paths=20000, max_enum=300, wall_s=None, run=None):
    """Run fn(engine) once per feasible path (DART-style re-execution).

    Returns the Run.  fn's return value per completed path is in run.results as
    (trace, value).  Paths ended by Cut are counted but produce no result."""
    global _ENG
    run = run or Run(max_paths, max_enum, wall_s)
    work = [[]]
    prev = _ENG
    _install_monitor()
    prev_run = _MON["run"]
    _MON["run"] = run
    try:
        while work:
            prefix = work.pop()
            eng = Engine(prefix, run)
            _ENG = eng
            run.stats.paths += 1
            try:
                r = fn(eng)
                if len(eng.trace) < len(prefix):
                    raise EngineError("path ended before its decision prefix was consumed")
                run.results.append((list(eng.trace), r))
            except PathAbort:
                if len(eng.trace) < len(prefix) and not _prefix_tail_is_notin(prefix, eng.trace):
                    raise EngineError("infeasible replay of a recorded prefix")
            except Cut:
                pass
            work.extend(eng.pending)
            if run.stats.paths > run.max_paths:
                raise Undecided(f"path budget {run.max_paths} exhausted")
            if run.deadline and time.time() > run.deadline:
                raise Undecided("wall-clock budget exhausted")
    finally:
        _ENG = prev
        _MON["run"] = prev_run
        for ev in run.monitor_events:
            note = "proxy reached an unmodelled operation (swallowed-exception monitor): " + ev
            if note not in run.undecided:
                run.undecided.append(note)
    return run


def _prefix_tail_is_notin(prefix, trace):
    # a 'notin' entry may legitimately turn out infeasible (no further value)
    return len(trace) == len(prefix) - 1 and prefix[-1][0] == "notin"


# --------------------------------------------------------------------------- terms
def _b(x):
    """Coerce to a z3 Bool term."""
    if isinstance(x, SymBool):
        return x.b
    if isinstance(x, SymInt):
        return x.t != _zero_like(x.t)
    if isinstance(x, bool):
        return z3.BoolVal(x)
    if isinstance(x, int):
        return z3.BoolVal(x != 0)
    if z3.is_bool(x):
        return x
    raise Unsupported(f"cannot coerce {type(x)} to Bool")


def _zero_like(t):
    return z3.IntVal(0) if z3.is_int(t) else z3.BitVecVal(0, W)


def _is_math(t):
    return z3.is_int(t)


def T(x, like=None):
    """z3 term of a Python/proxy value (64-bit vector, or Int when `like` is an Int term)."""
    if isinstance(x, SymInt):
        return x.t
    if isinstance(x, SymBool):
        if like is not None and _is_math(like):
            return z3.If(x.b, z3.IntVal(1), z3.IntVal(0))
        return z3.If(x.b, z3.BitVecVal(1, W), z3.BitVecVal(0, W))
    if isinstance(x, bool):
        x = int(x)
    if isinstance(x, int):
        if like is not None and _is_math(like):
            return z3.IntVal(x)
        if not (-(1 << 63) <= x < (1 << 64)):
            raise Unsupported(f"constant {x} exceeds 64 bits")
        return z3.BitVecVal(x, W)
    if z3.is_expr(x):
        return x
    return None


def _iv(x):
    """Conservative interval of a value."""
    if isinstance(x, SymInt):
        return (x.lo, x.hi)
    if isinstance(x, SymBool) or isinstance(x, bool):
        return (0, 1) if not isinstance(x, bool) else (int(x), int(x))
    if isinstance(x, int):
        return (x, x)
    return FULL


def _mk(t, lo, hi, what="op"):
    """Build a SymInt with interval; flags potential 64-bit wrap-around."""
    if _is_math(t):
        return SymInt(t, None, None)
    if lo is None or hi is None:
        lo, hi = FULL
    if lo < -LIM or hi > LIM:
        # The result may not be representable: the 64-bit encoding could disagree with Python.
        eng = _ENG
        if eng is not None:
            eng.run.undecided.append(f"possible 64-bit overflow in {what}: interval [{lo},{hi}]")
        lo, hi = FULL
    return SymInt(t, lo, hi)


def _bits_for(hi):
    return max(hi, 0).bit_length()


class SymBool:
    __slots__ = ("b",)

    def __init__(self, b):
        self.b = b

    def __bool__(self):
        return current().branch(self.b)

    def _as_int(self):
        return SymInt(T(self), 0, 1)

    def __eq__(self, o):
        if isinstance(o, SymBool):
            return SymBool(self.b == o.b)
        return self._as_int() == o

    def __ne__(self, o):
        if isinstance(o, SymBool):
            return SymBool(self.b != o.b)
        return self._as_int() != o

    def __hash__(self):
        return hash(bool(self))

    def __and__(self, o):
        if isinstance(o, SymBool):
            return SymBool(z3.And(self.b, o.b))
        if isinstance(o, bool):
            return self if o else False
        return self._as_int() & o

    __rand__ = __and__

    def __or__(self, o):
        if isinstance(o, SymBool):
            return SymBool(z3.Or(self.b, o.b))
        if isinstance(o, bool):
            return True if o else self
        return self._as_int() | o

    __ror__ = __or__

    def __xor__(self, o):
        if isinstance(o, SymBool):
            return SymBool(z3.Xor(self.b, o.b))
        if isinstance(o, bool):
            return SymBool(z3.Not(self.b)) if o else self
        return self._as_int() ^ o

    __rxor__ = __xor__

    def __invert__(self):
        return ~self._as_int()

    def __add__(self, o):
        return self._as_int() + o

    def __radd__(self, o):
        return o + self._as_int()

    def __sub__(self, o):
        return self._as_int() - o

    def __rsub__(self, o):
        return o - self._as_int()

    def __mul__(self, o):
        return self._as_int() * o

    __rmul__ = __mul__

    def __lshift__(self, o):
        return self._as_int() << o

    def __rshift__(self, o):
        return self._as_int() >> o

    def __lt__(self, o):
        return self._as_int() < o

    def __le__(self, o):
        return self._as_int() <= o

    def __gt__(self, o):
        return self._as_int() > o

    def __ge__(self, o):
        return self._as_int() >= o

    def __index__(self):
        return int(bool(self))

    def __repr__(self):
        return f"SymBool({z3.simplify(self.b)})"

    def __format__(self, spec):
        return self._as_int().__format__(spec)


def _coerce(o, like):
    t = T(o, like)
    return t


def _arith(name):
    def op(self, o):
        ot = _coerce(o, self.t)
        if ot is None:
            return NotImplemented
        return _apply(name, self, o, self.t, ot)

    def rop(self, o):
        ot = _coerce(o, self.t)
        if ot is None:
            return NotImplemented
        return _apply(name, o, self, ot, self.t)

    return op, rop


def _apply(name, a, b, at, bt):
    math = _is_math(at) or _is_math(bt)
    if math:
        if not _is_math(at):
            at = z3.BV2Int(at, True)
        if not _is_math(bt):
            bt = z3.BV2Int(bt, True)
        if name == "add":
            return SymInt(at + bt, None, None)
        if name == "sub":
            return SymInt(at - bt, None, None)
        if name == "mul":
            return SymInt(at * bt, None, None)
        if name == "floordiv":
            # z3 Int div is Euclidean; equals Python floor division for positive divisors.
            _require_positive(bt, "divisor of //")
            return SymInt(at / bt, None, None)
        if name == "mod":
            _require_positive(bt, "divisor of %")
            return SymInt(at % bt, None, None)
        raise Unsupported(f"operator {name} on mathematical integers")
    (alo, ahi), (blo, bhi) = _iv(a), _iv(b)
    if name == "add":
        return _mk(at + bt, alo + blo, ahi + bhi, "+")
    if name == "sub":
        return _mk(at - bt, alo - bhi, ahi - blo, "-")
    if name == "mul":
        c = [alo * blo, alo * bhi, ahi * blo, ahi * bhi]
        return _mk(at * bt, min(c), max(c), "*")
    if name == "and":
        if alo >= 0 and blo >= 0:
            return _mk(at & bt, 0, min(ahi, bhi))
        if alo >= 0:
            return _mk(at & bt, 0, ahi)
        if blo >= 0:
            return _mk(at & bt, 0, bhi)
        return _mk(at & bt, min(alo, blo, -(1 << max(_bits_for(-alo), _bits_for(-blo)))), max(ahi, bhi, 0))
    if name in ("or", "xor"):
        t = (at | bt) if name == "or" else (at ^ bt)
        n = max(_bits_for(ahi), _bits_for(bhi), _bits_for(-alo - 1) if alo < 0 else 0,
                _bits_for(-blo - 1) if blo < 0 else 0)
        if alo >= 0 and blo >= 0:
            return _mk(t, 0, (1 << n) - 1)
        return _mk(t, -(1 << n), (1 << n) - 1)
    if name == "lshift":
        if blo < 0:
            _require(bt >= 0, "negative shift count")
            blo = 0
        if bhi > 64:
            # Python would build a huge number; flag unless provably small
            return _mk(at << bt, None, None, "<< by wide amount") if (alo, ahi) != (0, 0) else _mk(at << bt, 0, 0)
        c = [alo << blo, alo << bhi, ahi << blo, ahi << bhi]
        return _mk(at << bt, min(c), max(c), "<<")
    if name == "rshift":
        if blo < 0:
            _require(bt >= 0, "negative shift count")
            blo = 0
        # Python >> is arithmetic; z3 >> on BitVecRef is arithmetic as well.  For counts
        # ≥ 64 z3 gives 0 / -1, same as Python.
        c = [alo >> blo, alo >> min(bhi, 70), ahi >> blo, ahi >> min(bhi, 70)]
        return _mk(at >> bt, min(c), max(c), ">>")
    if name in ("floordiv", "mod"):
        if blo <= 0 <= bhi:
            _require(bt != 0, "division by zero")
        if alo >= 0 and blo > 0:
            if name == "floordiv":
                return _mk(z3.UDiv(at, bt), alo // bhi, ahi // blo)
            return _mk(z3.URem(at, bt), 0, min(ahi, bhi - 1))
        # general floor semantics
        q = at / bt          # bvsdiv truncates toward zero
        r = z3.SRem(at, bt)
        adj = z3.And(r != 0, (r < 0) != (bt < 0))
        if name == "floordiv":
            return _mk(z3.If(adj, q - 1, q), None, None) if max(abs(alo), abs(ahi)) > LIM else _mk(
                z3.If(adj, q - 1, q), -max(abs(alo), abs(ahi)) - 1, max(abs(alo), abs(ahi)) + 1)
        m = max(abs(blo), abs(bhi))
        return _mk(z3.If(adj, r + bt, r), -m, m)
    raise Unsupported(f"operator {name}")


def _require(cond, what):
    eng = current()
    if eng.feasible(z3.Not(cond)):
        raise Unsupported(f"{what} is feasible")


def _require_positive(t, what):
    eng = current()
    if eng.feasible(t <= 0):
        raise Unsupported(f"non-positive {what} is feasible")


def _cmp(name):
    def op(self, o):
        ot = _coerce(o, self.t)
        if ot is None:
            if name == "eq":
                return False
            if name == "ne":
                return True
            return NotImplemented
        at = self.t
        if _is_math(at) != _is_math(ot):
            if not _is_math(at):
                at = z3.BV2Int(at, True)
            if not _is_math(ot):
                ot = z3.BV2Int(ot, True)
        if name == "eq":
            return SymBool(at == ot)
        if name == "ne":
            return SymBool(at != ot)
        if name == "lt":
            return SymBool(at < ot)
        if name == "le":
            return SymBool(at <= ot)
        if name == "gt":
            return SymBool(at > ot)
        return SymBool(at >= ot)

    return op


class SymInt:
    """Proxy for a Python int whose value is a z3 term.  Deliberately NOT an int subclass."""
    __slots__ = ("t", "lo", "hi")

    def __init__(self, t, lo=None, hi=None):
        self.t = t
        if lo is None and not _is_math(t):
            lo, hi = FULL
        self.lo = lo
        self.hi = hi

    __add__, __radd__ = _arith("add")
    __sub__, __rsub__ = _arith("sub")
    __mul__, __rmul__ = _arith("mul")
    __and__, __rand__ = _arith("and")
    __or__, __ror__ = _arith("or")
    __xor__, __rxor__ = _arith("xor")
    __lshift__, __rlshift__ = _arith("lshift")
    __rshift__, __rrshift__ = _arith("rshift")
    __floordiv__, __rfloordiv__ = _arith("floordiv")
    __mod__, __rmod__ = _arith("mod")
    __eq__ = _cmp("eq")
    __ne__ = _cmp("ne")
    __lt__ = _cmp("lt")
    __le__ = _cmp("le")
    __gt__ = _cmp("gt")
    __ge__ = _cmp("ge")

    def __divmod__(self, o):
        return (self // o, self % o)

    def __rdivmod__(self, o):
        return (o // self, o % self)

    def __neg__(self):
        if _is_math(self.t):
            return SymInt(-self.t, None, None)
        return _mk(-self.t, -self.hi, -self.lo, "neg")

    def __pos__(self):
        return self

    def __abs__(self):
        if _is_math(self.t):
            return SymInt(z3.If(self.t < 0, -self.t, self.t), None, None)
        m = max(abs(self.lo), abs(self.hi))
        return _mk(z3.If(self.t < 0, -self.t, self.t), 0, m, "abs")

    def __invert__(self):
        if _is_math(self.t):
            return SymInt(-self.t - 1, None, None)
        return _mk(~self.t, -self.hi - 1, -self.lo - 1, "~")

    def __pow__(self, o, mod=None):
        if isinstance(o, int) and mod is None and 0 <= o <= 4:
            r = 1
            for _ in range(o):
                r = r * self
            return r
        raise Unsupported("** with symbolic operand")

    def __rpow__(self, o):
        raise Unsupported("** with symbolic exponent")

    def __truediv__(self, o):
        raise Unsupported("true division on symbolic int")

    __rtruediv__ = __truediv__

    def __float__(self):
        raise Unsupported("float() of symbolic int")

    def __bool__(self):
        return current().branch(self.t != _zero_like(self.t))

    def __hash__(self):
        return hash(current().concretize(self.t))

    def __index__(self):
        return current().concretize(self.t)

    def __int__(self):
        # CPython insists on a real int here: exhaustive concretisation.
        return current().concretize(self.t)

    def __trunc__(self):
        return self

    def __round__(self, n=None):
        return self

    def bit_length(self):
        raise Unsupported("bit_length of symbolic int")

    def to_bytes(self, length, byteorder="big", *, signed=False):
        if signed:
            raise Unsupported("signed to_bytes")
        _require(z3.And(self.t >= 0, self.t < (1 << (8 * length))) if not _is_math(self.t) else
                 z3.And(self.t >= 0, self.t < (1 << (8 * length))), "to_bytes overflow")
        from .containers import SymBuf
        bs = [(self >> (8 * k)) & 0xFF for k in range(length)]
        if byteorder == "big":
            bs.reverse()
        return SymBuf(bs)

    def __repr__(self):
        return current_placeholder(self, "r") if _ENG is not None else f"SymInt({self.t})"

    __str__ = __repr__

    def __format__(self, spec):
        return current_placeholder(self, spec)

    @property
    def real(self):
        return self

    @property
    def imag(self):
        return 0

    def conjugate(self):
        return self


def current_placeholder(x, spec):
    eng = _ENG
    if eng is None:
        return "<sym>"
    k = len(eng.placeholders)
    text = f"<sym#{k}:{spec}>"
    eng.placeholders[text] = (x, spec)
    return text


# convenience for harnesses -------------------------------------------------
def ite(c, a, b):
    """Merge helper: value-level if-then-else without forking."""
    if isinstance(c, SymBool):
        ct = c.b
    elif isinstance(c, SymInt):
        ct = c.t != _zero_like(c.t)
    else:
        return a if c else b
    like = a.t if isinstance(a, SymInt) else (b.t if isinstance(b, SymInt) else None)
    if isinstance(a, (SymBool,)) or isinstance(b, (SymBool,)):
        if isinstance(a, (SymBool, bool)) and isinstance(b, (SymBool, bool)):
            return SymBool(z3.If(ct, _b(a), _b(b)))
    at, bt = T(a, like), T(b, like)
    if at is None or bt is None:
        return a if current().branch(ct) else b
    (alo, ahi), (blo, bhi) = _iv(a), _iv(b)
    if _is_math(at):
        return SymInt(z3.If(ct, at, bt), None, None)
    return SymInt(z3.If(ct, at, bt), min(alo, blo), max(ahi, bhi))


def not_(x):
    if isinstance(x, SymBool):
        return SymBool(z3.Not(x.b))
    if isinstance(x, SymInt):
        return SymBool(x.t == _zero_like(x.t))
    return not x


def and_(*xs):
    if all(isinstance(x, (SymBool, SymInt, bool, int)) for x in xs) and any(isinstance(x, (SymBool, SymInt)) for x in xs):
        return SymBool(z3.And([_b(x) for x in xs]))
    r = True
    for x in xs:
        r = r and x
    return r


def or_(*xs):
    if all(isinstance(x, (SymBool, SymInt, bool, int)) for x in xs) and any(isinstance(x, (SymBool, SymInt)) for x in xs):
        return SymBool(z3.Or([_b(x) for x in xs]))
    r = False
    for x in xs:
        r = r or x
    return r


def is_sym(x):
    return isinstance(x, (SymInt, SymBool))



def failed_sample(obs, n, extra=None):
    """Up to n failed obligations of a unit for its report, chosen so that nothing is hidden by the cut: first one
    representative of every distinct obligation name (names NOT tagged as a listed finding first), then the rest in
    order.  The driver treats the failures beyond the sample as instances of what the sample shows, so every distinct
    kind of failure must be in it."""
    failed = [o for o in obs if o.status == "failed"]
    failed.sort(key=lambda o: "@known:" in (o.name or ""))          # stable: untagged first
    seen, first, rest = set(), [], []
    for o in failed:
        key = (o.name, (o.detail or "")[:60])
        (rest if key in seen else first).append(o)
        seen.add(key)
    out = (first + rest)[:n]
    return [(o.as_dict() | extra(o)) if extra else o.as_dict() for o in out]
