from .core import *  # noqa
from .core import (Engine, Run, explore, SymInt, SymBool, T, current, Undecided, EngineError, PathAbort, Cut,
                   Unsupported, EngineSignal, ite, not_, and_, or_, is_sym, W)
from .containers import SymBuf, SymMem
