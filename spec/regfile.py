"""Abstract register file of the SC62015 (README register table + property C08):
base registers BA,I (16 bit), X,Y,U,S,PC (20 bit), F (8 bit), TEMP0-13 (24 bit scratch);
A/B = low/high byte of BA, IL/IH of I, FC/FZ = bits 0/1 of F; a write to IL clears IH."""
import z3

W = 64
NUM_TEMPS = 14
BASE_MASK = {"BA": 0xFFFF, "I": 0xFFFF, "X": 0xFFFFF, "Y": 0xFFFFF, "U": 0xFFFFF, "S": 0xFFFFF,
             "PC": 0xFFFFF, "F": 0xFF}
BASE_MASK.update({f"TEMP{i}": 0xFFFFFF for i in range(NUM_TEMPS)})
SUB = {"A": ("BA", 0, 0xFF), "B": ("BA", 8, 0xFF), "IL": ("I", 0, 0xFF), "IH": ("I", 8, 0xFF),
       "FC": ("F", 0, 1), "FZ": ("F", 1, 1)}
ALL = list(BASE_MASK) + list(SUB)


def bv(v):
    return z3.BitVecVal(v, W) if isinstance(v, int) else v


def get(view, r):
    if r in BASE_MASK:
        return view[r]
    b, sh, m = SUB[r]
    return z3.LShR(view[b], sh) & m


def set_(view, r, v):
    v = bv(v)
    out = dict(view)
    if r in BASE_MASK:
        out[r] = v & BASE_MASK[r]
        return out
    b, sh, m = SUB[r]
    if r == "IL":
        out["I"] = v & 0xFF
        return out
    out[b] = (view[b] & ~bv(m << sh) & BASE_MASK[b]) | ((v & m) << sh)
    return out


def invariant(view):
    return z3.And([z3.ULE(view[b], bv(m)) for b, m in BASE_MASK.items()])


# ---- independent formulation: registers as a little-endian byte/bit layout (README table)
def layout_get(cells, r):
    """cells: dict base -> list of byte terms (LSB first).  Width-limited read."""
    def word(b, n):
        v = bv(0)
        for k in range(n):
            v = v | (cells[b][k] << (8 * k))
        return v
    if r in ("BA", "I"):
        return word(r, 2)
    if r in ("X", "Y", "U", "S", "PC"):
        return word(r, 3) & 0xFFFFF
    if r.startswith("TEMP"):
        return word(r, 3)
    if r == "F":
        return cells["F"][0]
    if r == "A":
        return cells["BA"][0]
    if r == "B":
        return cells["BA"][1]
    if r == "IL":
        return cells["I"][0]
    if r == "IH":
        return cells["I"][1]
    if r == "FC":
        return cells["F"][0] & 1
    if r == "FZ":
        return z3.LShR(cells["F"][0], 1) & 1
    raise KeyError(r)


def layout_set(cells, r, v):
    v = bv(v)
    out = {k: list(x) for k, x in cells.items()}

    def put(b, n, val):
        for k in range(n):
            out[b][k] = z3.LShR(val, 8 * k) & 0xFF
    if r in ("BA", "I"):
        put(r, 2, v)
    elif r in ("X", "Y", "U", "S", "PC"):
        put(r, 3, v & 0xFFFFF)
    elif r.startswith("TEMP"):
        put(r, 3, v)
    elif r == "F":
        put("F", 1, v)
    elif r == "A":
        out["BA"][0] = v & 0xFF
    elif r == "B":
        out["BA"][1] = v & 0xFF
    elif r == "IL":
        out["I"][0] = v & 0xFF
        out["I"][1] = bv(0)            # hardware: writing IL clears IH
    elif r == "IH":
        out["I"][1] = v & 0xFF
    elif r == "FC":
        out["F"][0] = (cells["F"][0] & 0xFE) | (v & 1)
    elif r == "FZ":
        out["F"][0] = (cells["F"][0] & 0xFD) | ((v & 1) << 1)
    else:
        raise KeyError(r)
    return out
