"""Reference semantics of the SC62015 instruction set, driven by the *rendered text*.

This is the specification side of C03/C04/C05/C07.  It is written from
sc62015/pysc62015/README.md (instruction tables, register table, PRE table, HALT/OFF/RESET
table) and from the property statements, not from the lifter.  Input: the text the
disassembler printed (a template in which operand numbers are placeholders standing for
z3 terms), the pre-state (register terms, memory array) and the instruction's address and
length.  Output: the post-state the documentation prescribes, the set of memory locations
the instruction may read as data, the definedness conditions under which the
documentation says anything at all, and what the documentation leaves open.

All values are 64-bit z3 bit-vectors (the same encoding the engine uses), memory is an
Array(BV64 -> BV8) in which internal memory lives at INTERNAL + offset.
"""
from __future__ import annotations

import re

import z3

W = 64
INTERNAL = 0x100000
# README writes the block instructions as `(m++) <- (n++)` with 8-bit internal cell numbers m, n and is
# silent about a run that passes (FF).  Reading taken: the cursor is an 8-bit quantity and counts modulo
# 256 (the only reading under which every element is an internal-memory cell, which is what the rendered
# operand denotes).  VERIF_IMEM_WRAP=0 restores the earlier treatment (such runs excluded as undefined).
import os as _os
IMEM_CURSOR_WRAPS = _os.environ.get("VERIF_IMEM_WRAP", "1") == "1"
M8, M16, M20, M24 = 0xFF, 0xFFFF, 0xFFFFF, 0xFFFFFF
BP, PX, PY = 0xEC, 0xED, 0xEE
IMR, ISR, UCR, USR, SCR, LCC, SSR = 0xFB, 0xFC, 0xF7, 0xF8, 0xFD, 0xFE, 0xFF
VEC_IRQ, VEC_RESET = 0xFFFFA, 0xFFFFD

REG_W = {"A": 1, "B": 1, "IL": 1, "IH": 1, "BA": 2, "I": 2, "X": 3, "Y": 3, "U": 3, "S": 3,
         "F": 1, "IMR": 1, "PC": 3}
R3 = ("X", "Y", "U", "S")


def bv(v):
    return z3.BitVecVal(v, W) if isinstance(v, int) else v


def mask(w):
    return (1 << (8 * w)) - 1


class SpecError(Exception):
    """The text is outside the grammar the specification knows (=> undecided, not violation)."""


class NotSpecified(Exception):
    """The documentation does not define this instruction form."""


# ----------------------------------------------------------------------------- state
class State:
    def __init__(self, regs, mem):
        self.r = dict(regs)      # BA I X Y U S F PC -> BV64 terms (already width-limited)
        self.mem = mem
        self.mem0 = mem
        self.defined = []        # definedness conditions (documentation says something)
        self.reads = []          # (addr_term, why) data reads permitted
        self.free = []           # names of outputs left open by the documentation
        self.halted = None       # None = unchanged, True = must be halted

    # registers (README register table; X/Y/U/S/PC 20 bits per the property statement)
    def get(self, name):
        r = self.r
        if name == "A":
            return r["BA"] & 0xFF
        if name == "B":
            return z3.LShR(r["BA"], 8) & 0xFF
        if name == "IL":
            return r["I"] & 0xFF
        if name == "IH":
            return z3.LShR(r["I"], 8) & 0xFF
        if name == "IMR":
            return self.rd(bv(INTERNAL + IMR), 1)
        if name == "F":
            return r["F"]
        return r[name]

    def set(self, name, v):
        r = self.r
        v = bv(v)
        if name == "A":
            r["BA"] = (r["BA"] & 0xFF00) | (v & 0xFF)
        elif name == "B":
            r["BA"] = (r["BA"] & 0x00FF) | ((v & 0xFF) << 8)
        elif name == "IL":
            r["I"] = v & 0xFF          # a write to IL clears IH
        elif name == "IH":
            r["I"] = (r["I"] & 0x00FF) | ((v & 0xFF) << 8)
        elif name in ("BA", "I"):
            r[name] = v & M16
        elif name in R3 or name == "PC":
            r[name] = v & M20
        elif name == "IMR":
            self.wr(bv(INTERNAL + IMR), 1, v)
        elif name == "F":
            r["F"] = v & 0xFF
        else:
            raise SpecError(f"register {name}")

    def C(self):
        return self.r["F"] & 1

    def Z(self):
        return z3.LShR(self.r["F"], 1) & 1

    def setC(self, c):
        c = _bit(c)
        self.r["F"] = (self.r["F"] & ~bv(1)) | c

    def setZ(self, z):
        z = _bit(z)
        self.r["F"] = (self.r["F"] & ~bv(2)) | (z << 1)

    # memory, little endian
    def rd(self, a, w, log=True, why="src"):
        a = bv(a)
        v = bv(0)
        for k in range(w):
            if log:
                self.reads.append((a + k, why))
            v = v | (z3.ZeroExt(W - 8, z3.Select(self.mem, a + k)) << (8 * k))
        return v

    def wr(self, a, w, v):
        a = bv(a)
        v = bv(v)
        for k in range(w):
            self.mem = z3.Store(self.mem, a + k, z3.Extract(7, 0, z3.LShR(v, 8 * k)))

    def imem0(self, off):
        """Initial content of internal cell `off` (BP/PX/PY are read before anything is written)."""
        self.reads.append((bv(INTERNAL + off), "mode"))
        return z3.ZeroExt(W - 8, z3.Select(self.mem0, bv(INTERNAL + off)))

    def need(self, cond):
        self.defined.append(cond)


def _bit(c):
    if z3.is_bool(c):
        return z3.If(c, bv(1), bv(0))
    return bv(c) & 1


# ----------------------------------------------------------------------------- text
TOK = re.compile(r"\s*(<sym#\d+:[^>]*>|[A-Za-z_][A-Za-z0-9_]*|[0-9A-Fa-f]+|\+\+|--|[()\[\]+\-,])")


class Operand:
    kind = "?"


class OReg(Operand):
    kind = "reg"

    def __init__(self, name):
        self.name = name


class OImm(Operand):
    kind = "imm"

    def __init__(self, val, sign=None, digits=None):
        self.val = val
        self.sign = sign
        self.digits = digits


class OIMem(Operand):
    kind = "imem"

    def __init__(self, parts):
        self.parts = parts   # list of ('cell', off) | ('num', term)

    def addr(self, st):
        tot = bv(0)
        for k, v in self.parts:
            tot = tot + (st.imem0(v) if k == "cell" else bv(v))
        return bv(INTERNAL) + (tot & 0xFF)


class OEMem(Operand):
    kind = "emem"

    def __init__(self, mode, reg=None, base=None, off=None, sign=None):
        self.mode = mode     # abs | reg | postinc | predec | regoff | ind
        self.reg = reg
        self.base = base     # abs: term; ind: OIMem
        self.off = off
        self.sign = sign


def tokenize(text):
    out = []
    pos = 0
    text = text.strip()
    while pos < len(text):
        m = TOK.match(text, pos)
        if not m:
            raise SpecError(f"cannot tokenize {text[pos:]!r}")
        out.append(m.group(1))
        pos = m.end()
    return out


class Parser:
    """mnemonic operand {, operand};  numbers are hexadecimal; names inside ( ) other than
    BP/PX/PY followed by '+' denote the named internal-memory register's address."""

    def __init__(self, text, placeholders, imem_names):
        self.toks = tokenize(text)
        self.i = 0
        self.ph = placeholders
        self.names = imem_names

    def peek(self):
        return self.toks[self.i] if self.i < len(self.toks) else None

    def next(self):
        t = self.peek()
        self.i += 1
        return t

    def expect(self, t):
        if self.next() != t:
            raise SpecError(f"expected {t!r} in {' '.join(self.toks)}")

    def number(self, t):
        if t.startswith("<sym#"):
            x, spec = self.ph[t]
            if spec not in ("02X", "04X", "05X", "NAME"):
                raise SpecError(f"unexpected number format {spec!r}")
            # "NAME": the name of the internal-memory register whose address is the term
            return x, {"02X": 2, "04X": 4, "05X": 5, "NAME": 2}[spec]
        if re.fullmatch(r"[0-9A-Fa-f]+", t):
            return bv(int(t, 16)), len(t)
        raise SpecError(f"not a number: {t!r}")

    def is_number(self, t):
        return t is not None and (t.startswith("<sym#") or re.fullmatch(r"[0-9A-F]+", t) is not None)

    def parse(self):
        mn = self.next()
        ops = []
        if self.peek() is not None:
            ops.append(self.operand())
            while self.peek() == ",":
                self.next()
                ops.append(self.operand())
        if self.peek() is not None:
            raise SpecError("trailing tokens")
        return mn, ops

    def imem(self):
        self.expect("(")
        parts = []
        while True:
            t = self.next()
            if t in ("BP", "PX", "PY") and self.peek() == "+" or (t in ("PX", "PY") and parts):
                parts.append(("cell", {"BP": BP, "PX": PX, "PY": PY}[t]))
            elif self.is_number(t) and not (t in self.names and not t.startswith("<")):
                parts.append(("num", self.number(t)[0]))
            elif t in self.names:
                parts.append(("num", bv(self.names[t])))
            else:
                raise SpecError(f"internal operand part {t!r}")
            if self.peek() == "+":
                self.next()
                continue
            break
        self.expect(")")
        return OIMem(parts)

    def operand(self):
        t = self.peek()
        if t == "(":
            return self.imem()
        if t == "[":
            self.next()
            t = self.peek()
            if t == "(":
                base = self.imem()
                sign = off = None
                if self.peek() in ("+", "-"):
                    sign = self.next()
                    off = self.number(self.next())[0]
                self.expect("]")
                return OEMem("ind", base=base, off=off, sign=sign)
            if t == "--":
                self.next()
                r = self.next()
                self.expect("]")
                return OEMem("predec", reg=r)
            if t in R3:
                r = self.next()
                if self.peek() == "++":
                    self.next()
                    self.expect("]")
                    return OEMem("postinc", reg=r)
                if self.peek() in ("+", "-"):
                    sign = self.next()
                    off = self.number(self.next())[0]
                    self.expect("]")
                    return OEMem("regoff", reg=r, off=off, sign=sign)
                self.expect("]")
                return OEMem("reg", reg=r)
            if self.is_number(t):
                v = self.number(self.next())[0]
                self.expect("]")
                return OEMem("abs", base=v)
            raise SpecError(f"external operand {t!r}")
        if t in ("+", "-"):
            s = self.next()
            v, d = self.number(self.next())
            return OImm(v, sign=s, digits=d)
        if t in REG_W and t != "PC":
            self.next()
            return OReg(t)
        if self.is_number(t):
            v, d = self.number(self.next())
            return OImm(v, digits=d)
        raise SpecError(f"operand {t!r}")


# ----------------------------------------------------------------------------- operand access
def op_width(mn, ops):
    """Access width in bytes implied by the mnemonic / register operand (README)."""
    if mn in ("MVW", "EXW", "CMPW"):
        return 2
    if mn in ("MVP", "EXP", "CMPP"):
        return 3
    for o in ops:
        if isinstance(o, OReg):
            return REG_W[o.name]
    return 1


def ext_ok(st, a, w):
    """External data accesses must lie inside the 1 MiB external space (the README does not
    say what happens when pointer arithmetic leaves it)."""
    st.need(z3.And(a >= 0, a + (w - 1) <= M20))


def int_ok(st, a, w):
    """Multi-byte internal accesses must not run past (FF) (README silent on wrap)."""
    if w > 1:
        st.need(a + (w - 1) <= INTERNAL + 0xFF)


def ea(st, o, w, write=False):
    """Effective address of a memory operand, applying documented pointer side effects.
    Returns (addr, post) where post() applies a post-increment."""
    if isinstance(o, OIMem):
        a = o.addr(st)
        int_ok(st, a, w)
        return a, None
    assert isinstance(o, OEMem)
    if o.mode == "abs":
        a = o.base
        ext_ok(st, a, w)
        return a, None
    if o.mode == "reg":
        a = st.get(o.reg)
        ext_ok(st, a, w)
        return a, None
    if o.mode == "postinc":
        a = st.get(o.reg)
        ext_ok(st, a, w)
        st.need(a + w <= M20)
        return a, (lambda: st.set(o.reg, a + w))
    if o.mode == "predec":
        a0 = st.get(o.reg)
        st.need(a0 >= w)
        a = a0 - w
        st.set(o.reg, a)
        ext_ok(st, a, w)
        return a, None
    if o.mode == "regoff":
        a = st.get(o.reg) + o.off if o.sign == "+" else st.get(o.reg) - o.off
        ext_ok(st, a, w)
        return a, None
    if o.mode == "ind":
        pa = o.base.addr(st)
        int_ok(st, pa, 3)
        # the 3-byte pointer is used as stored; when it (or pointer±n) leaves the 20-bit external
        # space the documentation is silent (ext_ok below makes that a definedness condition)
        p = st.rd(pa, 3, why="pointer")
        a = p
        if o.sign == "+":
            a = p + o.off
        elif o.sign == "-":
            a = p - o.off
        ext_ok(st, a, w)
        return a, None
    raise SpecError(o.mode)


def read_op(st, o, w, why="src"):
    if isinstance(o, OReg):
        return st.get(o.name)
    if isinstance(o, OImm):
        return o.val
    a, post = ea(st, o, w)
    v = st.rd(a, w, why=why)
    if post:
        post()
    return v


def loc_op(st, o, w):
    """Resolve a destination once: returns (getter, setter)."""
    if isinstance(o, OReg):
        return (lambda: st.get(o.name)), (lambda v: st.set(o.name, v))
    if isinstance(o, OImm):
        raise SpecError("immediate destination")
    a, post = ea(st, o, w, write=True)

    def setter(v):
        st.wr(a, w, v)
        if post:
            post()

    return (lambda: st.rd(a, w, why="dst-rmw")), setter


def ptr_regs(o):
    return {o.reg} if isinstance(o, OEMem) and o.mode in ("postinc", "predec") else set()


# ----------------------------------------------------------------------------- BCD
def bcd_valid(x):
    return z3.And((x & 0xF) <= 9, (z3.LShR(x, 4) & 0xF) <= 9)


def bcd_val(x):
    return (z3.LShR(x, 4) & 0xF) * 10 + (x & 0xF)


def bcd_pack(v):
    return (z3.UDiv(v, bv(10)) << 4) | z3.URem(v, bv(10))


def bcd_addsub(a, b, c, sub):
    """Packed-BCD byte add/subtract with carry/borrow c (0/1): decimal value arithmetic
    (a + b + c) mod 100 resp. (a - b - c) mod 100, carry = decimal overflow / borrow.
    Same function as bcd_pack((bcd_val(a) +- ...) % 100), computed at 8 bits (all values < 200)
    so that the division circuits the solver sees are 8 and not 64 bits wide."""
    def val8(x):
        x8 = z3.Extract(7, 0, x)
        return z3.ZeroExt(4, z3.Extract(7, 4, x8)) * 10 + z3.ZeroExt(4, z3.Extract(3, 0, x8))
    c8 = z3.ZeroExt(7, z3.Extract(0, 0, c))
    hundred, ten = z3.BitVecVal(100, 8), z3.BitVecVal(10, 8)
    if sub:
        v = val8(a) + hundred - val8(b) - c8
        carry = z3.ULT(v, hundred)
    else:
        v = val8(a) + val8(b) + c8
        carry = z3.UGE(v, hundred)
    m = z3.If(z3.UGE(v, hundred), v - hundred, v)
    r8 = (z3.UDiv(m, ten) << 4) | z3.URem(m, ten)
    return z3.ZeroExt(W - 8, r8), z3.If(carry, bv(1), bv(0))


# ----------------------------------------------------------------------------- semantics
class Result:
    pass


def execute(text, placeholders, imem_names, st, addr, length, block_limit=None):
    """Apply the documented semantics of the instruction printed as `text` to `st`.

    addr: address term of the instruction; length: its length in bytes (int).
    Returns st (mutated).  Raises NotSpecified for undocumented forms."""
    mn, ops = Parser(text, placeholders, imem_names).parse()
    nxt = (bv(addr) + length) & M20
    st.r["PC"] = nxt
    st.mn, st.ops = mn, ops
    page_ok = ((bv(addr) & 0xFFFF) + length) <= 0xFFFF   # next address on the same 64K page

    def two():
        if len(ops) != 2:
            raise SpecError(f"{mn} expects two operands")
        return ops

    def one():
        if len(ops) != 1:
            raise SpecError(f"{mn} expects one operand")
        return ops[0]

    def alias_guard(d, s):
        # destination register that is also an auto-modified pointer: order not documented
        for o in (d, s):
            for r in ptr_regs(o):
                for q in (d, s):
                    if isinstance(q, OReg) and q.name == r:
                        raise NotSpecified("register is both data and auto-modified pointer")

    # ---- moves
    if mn in ("MV", "MVW", "MVP"):
        d, s = two()
        alias_guard(d, s)
        w = op_width(mn, ops)
        if isinstance(d, OReg) and isinstance(s, OReg):
            if mn != "MV" or REG_W[d.name] != REG_W[s.name]:
                raise NotSpecified("register move between different sizes")
            st.set(d.name, st.get(s.name))
            return st
        if isinstance(s, OEMem) and isinstance(d, OEMem):
            raise SpecError("mem,mem external")
        # resolve destination address first only when it has a pre-decrement (documented order:
        # r3 ← r3-w, then store); sources are read before the store either way.
        if isinstance(d, OEMem) and d.mode == "predec":
            g, setter = loc_op(st, d, w)
            v = read_op(st, s, w)
            setter(v)
        else:
            v = read_op(st, s, w)
            g, setter = loc_op(st, d, w)
            setter(v)
        return st

    if mn in ("EX", "EXW", "EXP"):
        d, s = two()
        w = op_width(mn, ops)
        if isinstance(d, OReg) and isinstance(s, OReg):
            a, b = st.get(d.name), st.get(s.name)
            if REG_W[d.name] != REG_W[s.name]:
                raise NotSpecified("exchange of registers of different size")
            st.set(d.name, b)
            st.set(s.name, a)
            return st
        g1, s1 = loc_op(st, d, w)
        g2, s2 = loc_op(st, s, w)
        # the first store must not hit a BP/PX/PY cell the other operand's address depends on
        # (the table does not say whether addresses are formed before or after the first store)
        _mode_cell_guard(st, d, s, w)
        a, b = g1(), g2()
        s1(b)
        # the second store sees the first (matters only when the ranges overlap)
        s2(a)
        if w > 1:
            # overlapping multi-byte exchange is not defined by the table
            st.need(z3.Or(_addr_of(st, d) + w <= _addr_of(st, s), _addr_of(st, s) + w <= _addr_of(st, d),
                          _addr_of(st, d) == _addr_of(st, s)))
        return st

    # ---- arithmetic / logic with two operands
    if mn in ("ADD", "SUB", "ADC", "SBC", "AND", "OR", "XOR", "PMDF"):
        d, s = two()
        if isinstance(d, OReg) and isinstance(s, OReg):
            w = REG_W[d.name]
            if REG_W[s.name] > w:
                raise NotSpecified("source register wider than destination")
        else:
            w = 1
        g, setter = loc_op(st, d, w)
        a = g()
        b = read_op(st, s, REG_W[s.name] if isinstance(s, OReg) else w)
        m = M20 if (isinstance(d, OReg) and d.name in R3) else mask(w)
        a = a & m
        b = b & m
        c = st.C()
        if mn in ("ADD", "ADC"):
            full = a + b + (c if mn == "ADC" else 0)
            setter(full & m)
            st.setC(z3.UGT(full, bv(m)))
            st.setZ((full & m) == 0)
        elif mn in ("SUB", "SBC"):
            sub = b + (c if mn == "SBC" else 0)
            setter((a - sub) & m)
            st.setC(z3.ULT(a, sub))
            st.setZ(((a - sub) & m) == 0)
        elif mn == "PMDF":
            setter((a + b) & m)
        else:
            r = {"AND": a & b, "OR": a | b, "XOR": a ^ b}[mn]
            setter(r)
            st.setZ(r == 0)
        return st

    if mn in ("CMP", "CMPW", "CMPP", "TEST"):
        d, s = two()
        w = {"CMP": 1, "CMPW": 2, "CMPP": 3, "TEST": 1}[mn]
        a = read_op(st, d, w) & mask(w)
        b = read_op(st, s, w) & mask(w)
        if isinstance(s, OReg) and REG_W[s.name] != w and not (mn == "CMPP" and s.name in R3):
            raise NotSpecified("compare with register of different size")
        if mn == "TEST":
            st.setZ((a & b) == 0)
        else:
            st.setC(z3.ULT(a, b))
            st.setZ(a == b)
        return st

    if mn in ("INC", "DEC"):
        d = one()
        w = REG_W[d.name] if isinstance(d, OReg) else 1
        m = M20 if (isinstance(d, OReg) and d.name in R3) else mask(w)
        g, setter = loc_op(st, d, w)
        r = (g() + (1 if mn == "INC" else -1)) & m
        setter(r)
        st.setZ(r == 0)
        return st

    if mn in ("ROR", "ROL", "SHR", "SHL"):
        d = one()
        g, setter = loc_op(st, d, 1)
        v = g() & 0xFF
        c = st.C()
        if mn == "ROR":
            r, co = (z3.LShR(v, 1) | ((v & 1) << 7)), v & 1
        elif mn == "ROL":
            r, co = (((v << 1) | z3.LShR(v, 7)) & 0xFF), z3.LShR(v, 7) & 1
        elif mn == "SHR":
            r, co = (z3.LShR(v, 1) | (c << 7)), v & 1
        else:
            r, co = (((v << 1) | c) & 0xFF), z3.LShR(v, 7) & 1
        setter(r)
        st.setC(co)
        st.setZ(r == 0)
        return st

    if mn == "SWAP":
        d = one()
        g, setter = loc_op(st, d, 1)
        v = g() & 0xFF
        r = ((v << 4) | z3.LShR(v, 4)) & 0xFF
        setter(r)
        st.setZ(r == 0)
        st.free.append("C")     # table marks C affected without saying how
        return st

    # ---- stack
    if mn in ("PUSHU", "PUSHS"):
        d = one()
        sp = "U" if mn == "PUSHU" else "S"
        w = REG_W[d.name]
        v = st.get(d.name)
        p = st.get(sp)
        st.need(p >= w)
        ext_ok(st, p - w, w)
        st.set(sp, p - w)
        if d.name == "F":
            st.free.append(("membits", p - w, 0xFC))   # only C/Z are documented flag bits
            v = v & 3
        st.wr(p - w, w, v)
        if d.name == "IMR":
            st.set("IMR", st.get("IMR") & 0x7F)
        return st

    if mn in ("POPU", "POPS"):
        d = one()
        sp = "U" if mn == "POPU" else "S"
        w = REG_W[d.name]
        p = st.get(sp)
        ext_ok(st, p, w)
        st.need(p + w <= M20)
        v = st.rd(p, w)
        if d.name == "F":
            st.setC(v & 1)
            st.setZ(z3.LShR(v, 1) & 1)
            st.free.append("Fhi")
        else:
            st.set(d.name, v)
        if d.name != sp:
            st.set(sp, p + w)
        else:
            raise NotSpecified("pop into the stack pointer itself")
        return st

    # ---- flags / misc
    if mn == "SC":
        st.setC(1)
        return st
    if mn == "RC":
        st.setC(0)
        return st
    if mn in ("NOP", "TCL"):
        return st
    if mn == "WAIT":
        st.set("I", 0)
        return st
    if mn in ("HALT", "OFF"):
        usr = st.rd(bv(INTERNAL + USR), 1, why="status")
        ssr = st.rd(bv(INTERNAL + SSR), 1, why="status")
        st.wr(bv(INTERNAL + USR), 1, (usr & ~bv(0x27) | 0x18) & 0xFF)
        st.wr(bv(INTERNAL + SSR), 1, (ssr | 0x04) & 0xFF)
        st.free += ["C", "Z"]
        st.halted = True
        return st
    if mn == "RESET":
        lcc = st.rd(bv(INTERNAL + LCC), 1, why="status")
        usr = st.rd(bv(INTERNAL + USR), 1, why="status")
        ssr = st.rd(bv(INTERNAL + SSR), 1, why="status")
        st.wr(bv(INTERNAL + LCC), 1, lcc & 0x7F)
        st.wr(bv(INTERNAL + UCR), 1, 0)
        st.wr(bv(INTERNAL + USR), 1, (usr & ~bv(0x27) | 0x18) & 0xFF)
        st.wr(bv(INTERNAL + ISR), 1, 0)
        st.wr(bv(INTERNAL + SCR), 1, 0)
        st.wr(bv(INTERNAL + SSR), 1, (ssr | 0x04) & 0xFF)
        # README table: "IMR (FCH)" (name and address disagree) and SSR bit 2 "set"; the
        # instruction comment in the source says SSR bit 2 is reset: both left open.
        st.free.append(("membits", bv(INTERNAL + SSR), 0x04))
        st.free.append(("membits", bv(INTERNAL + IMR), 0xFF))
        st.r["PC"] = st.rd(bv(VEC_RESET), 3, why="vector") & M20
        return st
    if mn == "IR":
        s0 = st.get("S")
        st.need(s0 >= 5)
        ext_ok(st, s0 - 5, 5)
        imr = st.get("IMR")
        st.wr(s0 - 3, 3, nxt)
        st.free.append(("membits", s0 - 2, 0xFC))
        st.wr(s0 - 4, 1, st.get("F") & 3)
        st.wr(s0 - 5, 1, imr)
        st.set("S", s0 - 5)
        st.wr(bv(INTERNAL + IMR), 1, imr & 0x7F)
        st.r["PC"] = st.rd(bv(VEC_IRQ), 3, why="vector") & M20
        return st
    if mn == "RETI":
        s0 = st.get("S")
        ext_ok(st, s0, 5)
        st.need(s0 + 5 <= M20)
        st.wr(bv(INTERNAL + IMR), 1, st.rd(s0, 1))
        f = st.rd(s0 + 1, 1)
        st.setC(f & 1)
        st.setZ(z3.LShR(f, 1) & 1)
        st.free.append("Fhi")
        st.r["PC"] = st.rd(s0 + 2, 3) & M20
        st.set("S", s0 + 5)
        return st

    # ---- control flow
    m = re.fullmatch(r"(JP|JR)(Z|NZ|C|NC)?", mn)
    if m and mn != "JPF":
        kind, cond = m.group(1), m.group(2)
        d = one()
        taken = {None: z3.BoolVal(True), "Z": st.Z() == 1, "NZ": st.Z() == 0,
                 "C": st.C() == 1, "NC": st.C() == 0}[cond]
        if kind == "JR":
            if not isinstance(d, OImm) or d.sign is None:
                raise SpecError("JR needs a signed displacement")
            tgt = (nxt + d.val) if d.sign == "+" else (nxt - d.val)
        elif isinstance(d, OImm):
            if d.digits == 5:
                tgt = d.val
            else:
                st.need(page_ok)
                tgt = (bv(addr) & 0xF0000) | (d.val & M16)
        elif isinstance(d, OReg):
            if d.name not in R3:
                raise NotSpecified("JP with a register that is not r3")
            tgt = st.get(d.name)
        elif isinstance(d, OIMem):
            a = d.addr(st)
            int_ok(st, a, 3)
            tgt = st.rd(a, 3, why="pointer")
        else:
            raise SpecError("jump operand")
        st.r["PC"] = z3.If(taken, tgt & M20, nxt)
        st.branch = (cond, tgt & M20)
        st.taken = taken
        return st
    if mn == "JPF":
        d = one()
        st.r["PC"] = d.val & M20
        return st
    if mn in ("CALL", "CALLF"):
        d = one()
        s0 = st.get("S")
        n = 2 if mn == "CALL" else 3
        st.need(s0 >= n)
        ext_ok(st, s0 - n, n)
        st.wr(s0 - n, n, nxt & (M16 if n == 2 else M20))
        st.set("S", s0 - n)
        if mn == "CALL":
            st.need(page_ok)
            st.r["PC"] = (bv(addr) & 0xF0000) | (d.val & M16)
        else:
            st.r["PC"] = d.val & M20
        return st
    if mn in ("RET", "RETF"):
        s0 = st.get("S")
        n = 2 if mn == "RET" else 3
        ext_ok(st, s0, n)
        st.need(s0 + n <= M20)
        v = st.rd(s0, n)
        if mn == "RET":
            st.need(page_ok)
            st.r["PC"] = (bv(addr) & 0xF0000) | v
        else:
            st.r["PC"] = v & M20
        st.set("S", s0 + n)
        return st

    # ---- counted (block) instructions: concrete iteration count only (bounded)
    if mn in ("MVL", "MVLD", "EXL", "ADCL", "SBCL", "DADL", "DSBL", "DSLL", "DSRL"):
        return _block(mn, ops, st, block_limit)

    raise NotSpecified(f"mnemonic {mn}")


def _mode_cell_guard(st, d, s, w):
    """Two-store instructions: the first store must not hit a BP/PX/PY cell the other operand's
    address depends on (the table does not say when operand addresses are formed)."""
    for o1, o2 in ((d, s), (s, d)):
        if isinstance(o1, OIMem) and isinstance(o2, OIMem):
            a1 = o1.addr(st)
            for kind, cell in o2.parts:
                if kind == "cell":
                    st.need(z3.Or(bv(INTERNAL + cell) < a1, bv(INTERNAL + cell) > a1 + (w - 1)))


def _addr_of(st, o):
    if isinstance(o, OIMem):
        return o.addr(st)
    raise SpecError("overlap test on non-internal operand")


def _block(mn, ops, st, n):
    """Counted instructions for a concrete count n = I (README: loop I times, I ends 0)."""
    if n is None:
        raise NotSpecified("block instruction needs a concrete iteration count")
    i_now = st.get("I")
    st.need(i_now == n)

    def cursor(o, direction):
        """Internal cursors wrap inside the 256-byte internal space; external cursors are
        plain 20-bit pointers.  Returns [addr] (mutable)."""
        if isinstance(o, OIMem):
            return ["i", o.addr(st)]
        if isinstance(o, OEMem):
            if o.mode == "predec":
                return ["e", st.get(o.reg)]
            a, _ = ea(st, OEMem("reg", reg=o.reg) if o.mode == "postinc" else o, 1)
            return ["e", a]
        raise SpecError("block operand")

    def step(cur, delta, last=False):
        kind, a = cur
        if kind == "i":
            # README does not say whether an internal cursor wraps from (FF) to (00): the
            # cursor must stay inside the internal space for the result to be defined
            if IMEM_CURSOR_WRAPS:
                # (m++) on an 8-bit internal cell number: the cursor counts modulo 256
                cur[1] = bv(INTERNAL) + ((a - INTERNAL + delta) & 0xFF)
            else:
                cur[1] = a + delta
                if not last:
                    st.need(z3.And(cur[1] >= INTERNAL, cur[1] <= INTERNAL + 0xFF))
        else:
            cur[1] = a + delta
            st.need(z3.And(cur[1] >= 0, cur[1] <= M20 + 1))

    if mn in ("MVL", "MVLD"):
        d, s = ops
        back = mn == "MVLD"
        dd = -1 if back else 1
        sd = -1 if back else 1
        dpre = isinstance(d, OEMem) and d.mode == "predec"
        spre = isinstance(s, OEMem) and s.mode == "predec"
        if dpre:
            dd = -1
        if spre:
            sd = -1
        dc, sc = cursor(d, dd), cursor(s, sd)
        for k in range(n):
            if spre:
                step(sc, -1)
            if dpre:
                step(dc, -1)
            if sc[0] == "e":
                ext_ok(st, sc[1], 1)
            if dc[0] == "e":
                ext_ok(st, dc[1], 1)
            st.wr(dc[1], 1, st.rd(sc[1], 1))
            if not spre:
                step(sc, sd, last=(k == n - 1))
            if not dpre:
                step(dc, dd, last=(k == n - 1))
        for o, c in ((d, dc), (s, sc)):
            if isinstance(o, OEMem) and o.mode in ("postinc", "predec"):
                st.set(o.reg, c[1])
        st.set("I", 0)
        return st

    if mn == "EXL":
        d, s = ops
        _mode_cell_guard(st, d, s, n)
        dc, sc = cursor(d, 1), cursor(s, 1)
        for k in range(n):
            a, b = st.rd(dc[1], 1, why="dst-rmw"), st.rd(sc[1], 1, why="dst-rmw")
            st.wr(dc[1], 1, b)
            st.wr(sc[1], 1, a)
            step(dc, 1, last=(k == n - 1))
            step(sc, 1, last=(k == n - 1))
        st.set("I", 0)
        return st

    if mn in ("ADCL", "SBCL", "DADL", "DSBL"):
        d, s = ops
        bcd = mn in ("DADL", "DSBL")
        sub = mn in ("SBCL", "DSBL")
        dirn = -1 if bcd else 1
        dc = cursor(d, dirn)
        sc = cursor(s, dirn) if not isinstance(s, OReg) else None
        c = st.C()
        if mn == "DADL":
            pass   # README: "BCD add with carry: (m) ← (m)+(n)+C"
        acc = bv(0)
        for k in range(n):
            a = st.rd(dc[1], 1, why="dst-rmw")
            if sc is not None:
                b = st.rd(sc[1], 1)
            else:
                b = st.get(s.name) & 0xFF
                if bcd and k > 0:
                    # DADL/DSBL (n),A: unlike ADCL/SBCL (n),A ("A is src for each byte") the README does
                    # not say what the bytes after the first add; their results and the final C/Z are open
                    st.free += [("membits", dc[1], 0xFF), "C", "Z"]
            if bcd:
                st.need(z3.And(bcd_valid(a), bcd_valid(b)))
                r, c = bcd_addsub(a, b, c, sub)
            else:
                if sub:
                    t = b + c
                    r = (a - t) & 0xFF
                    c = z3.If(z3.ULT(a, t), bv(1), bv(0))
                else:
                    t = a + b + c
                    r = t & 0xFF
                    c = z3.If(z3.UGT(t, bv(0xFF)), bv(1), bv(0))
            st.wr(dc[1], 1, r)
            acc = acc | r
            step(dc, dirn, last=(k == n - 1))
            if sc is not None:
                step(sc, dirn, last=(k == n - 1))
        st.setC(c)
        st.setZ(acc == 0)
        st.set("I", 0)
        return st

    if mn in ("DSLL", "DSRL"):
        (d,) = ops
        left = mn == "DSLL"
        dc = cursor(d, -1 if left else 1)
        carry = bv(0)
        acc = bv(0)
        for k in range(n):
            t = st.rd(dc[1], 1, why="dst-rmw")
            if left:
                r = ((t << 4) & 0xF0) | carry
                carry = z3.LShR(t, 4) & 0xF
            else:
                r = (z3.LShR(t, 4) & 0xF) | (carry << 4)
                carry = t & 0xF
            st.wr(dc[1], 1, r)
            acc = acc | r
            step(dc, -1 if left else 1, last=(k == n - 1))
        st.setZ(acc == 0)
        st.set("I", 0)
        return st
    raise NotSpecified(mn)
