"""Entry point: ./check <ID|selftest> [--tier quick|thorough] [--replay FILE]"""
import importlib
import os
import sys

from props import common

CHECKS = {
    "C01": "props.c01", "C02": "props.c02", "C03": "props.cpu_props", "C04": "props.cpu_props",
    "C05": "props.c05", "C07": "props.cpu_props", "C08": "props.c08", "C09": "props.c09",
    "C10": "props.c10", "C11": "props.c11", "C12": "props.c12", "C13": "props.c13",
    "C14": "props.c14", "C15": "props.c15", "C16": "props.c16", "C17": "props.c17",
}


def main():
    if len(sys.argv) < 2:
        print(__doc__)
        return 3
    what = sys.argv[1]
    if "--replay" in sys.argv:
        path = sys.argv[sys.argv.index("--replay") + 1]
        status, text = common.native_replay(what, path)
        print(text)
        if status == "violates":
            print(f"VIOLATION property={what} replay={path}")
            return 1
        if status == "no-input":
            # the file names an obligation the verifier refuted when it was written; replaying it alone
            # yields no failing input on this tree, which does not decide anything: re-run the check
            print(f"replay of {path}: no failing input on this tree (inconclusive; run ./check {what} to re-decide the obligation)")
            return 2
        return 0 if status == "holds" else 3
    if what == "selftest":
        from symx import selftest
        return selftest.main()
    if what not in CHECKS:
        print("unknown check", what)
        return 3
    tier = common.tier()
    os.environ["VERIF_TIER"] = tier
    # engine self-test first: no pass is believed if the engine is unsound on its own tests
    from symx import selftest
    rc = selftest.main(quiet=True)
    if rc != 0:
        print(f"[{what}] engine self-test failed: refusing to report a verdict")
        return 3
    mod = importlib.import_module(CHECKS[what])
    return mod.run(what, tier)


if __name__ == "__main__":
    sys.exit(main())
