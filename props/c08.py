"""C08: register aliasing, widths, flag packing (Python half: proof; Rust half: see DESIGN)."""
from props import common
from spec import regfile as RF

FUNCS = ["sc62015.pysc62015.emulator:Registers.get", "Registers.set", "Registers.get_by_name", "Registers.set_by_name",
         "Registers.get_flag", "Registers.set_flag", "sc62015.pysc62015.stepper:CPURegistersSnapshot.from_registers",
         "CPURegistersSnapshot.apply_to", "CPURegistersSnapshot.to_dict", "pce500.emulator:_pack_register_bytes",
         "pce500.emulator:_unpack_register_bytes"]


def run(prop, tier):
    v = common.Verdict(prop, "proof")
    v.functions = FUNCS
    known = common.load_known(prop)
    units = [dict(reg=r, api="enum") for r in RF.ALL] + [dict(reg=r, api="name") for r in RF.ALL] + \
            [dict(reg=r, api="flag") for r in ("FC", "FZ")]
    reps = common.run_units("contracts.regs:unit_set_get", units, budget=300)
    reps += common.run_units("contracts.regs:unit_unknown", [dict(kind="unknown-names")], budget=120)
    reps += common.run_units("contracts.regs:unit_law", [dict(reg=r, kind="law") for r in RF.ALL], budget=300)
    temps = range(14) if tier == "thorough" else (0, 5, 13)
    reps += common.run_units("contracts.regs:unit_snapshot", [dict(temp=k, kind="snapshot") for k in temps], budget=300)
    hist = [dict(reg=r, api="enum" if i % 2 == 0 else "name", kind="snapshot-after-write") for i, r in enumerate(x for x in RF.ALL if not x.startswith("TEMP"))]
    hist += [dict(reg=r, api="flag", kind="snapshot-after-write") for r in ("FC", "FZ")]
    reps += common.run_units("contracts.regs:unit_snapshot_history", hist, budget=300)
    reps += common.run_units("contracts.regs:unit_blob", [dict(kind="blob")], budget=300)
    v.absorb(reps, known)
    v.samples = [dict(obligation="set:IL:store:I", statement="forall file, v (64 bit): after Registers.set(IL, v): _values[I] == v & 0xFF"),
                 dict(obligation="law:BA->B", statement="spec lemma: get(set(view, BA, v), B) == byte 1 of the BA cell in the README layout"),
                 dict(obligation="snapshot:roundtrip:FZ", statement="from_registers/apply_to onto a fresh Registers preserves FZ")]
    v.assumptions = [
        "register file state = Registers._values (dict keyed by RegisterName) with every stored value within its width (representation invariant, proved preserved by set)",
        "written values are arbitrary 64-bit two's complement integers (the property says 32-bit); wider Python ints are not covered",
        "snapshot contract: one TEMP register symbolic per work unit, the others concrete (from_registers forks on the truth value of every temp)",
        "Rust LlamaState::set_reg/get_reg: NOT proved (no Rust verifier); a bounded stand-in runs the compiled code against the same contract; pack_registers/unpack_registers undecided, constants compared under C17",
    ]
    from props import rust_standin as RS
    vec = dict(regs=RS.regs_vectors(tier))
    res = RS.run(vec, ["regs"])
    keep = (v.obligations, v.discharged)
    v.absorb(RS.reports(res, vec, ["regs"]), known, expect_obligations=False)
    v.obligations, v.discharged = keep
    v.bounded = [RS.summarize(res, "regs", "LlamaState::set_reg/get_reg on the compiled crate: 3 prior files x 16 register names x 17 boundary values (0..0xFFFFFFFF), and all ordered pairs of "
                              "writes over 16 names with 6 x 4 values (thorough: 10 x 10); after the writes every one of the 16 names is read; expected values from spec/regfile.py (the contract the Python half is proved against)"),
                 dict(part="Rust snapshot.rs pack/unpack_registers", bound="not run", note="undecided; layout constants compared under C17")]
    rule = ("work unit = register name x API (enum / by-name / flag); prior file = arbitrary values within width, written value = arbitrary 64-bit; "
            "obligations: every stored base value == spec, invariant, frame, every get == spec; plus spec-level law per (written, read) pair, snapshot round trip, register blob layout")
    return v.finish(f"./check {prop} --tier {tier}", rule, tier)
