"""C11: the memory bus behaves like memory (Python PCE500Memory/MemoryBus: proof; Rust: not decided)."""
from props import common
from contracts import membus

FUNCS = ["pce500.memory:PCE500Memory.read_byte", "write_byte", "read_bytes", "write_bytes", "read_word", "write_word", "read_long", "write_long",
         "load_rom", "add_ram", "add_rom", "card read/write closures", "pce500.memory_bus:MemoryBus.read", "MemoryBus.write",
         "MemoryBus._read_from_overlay", "MemoryBus._write_to_overlay", "MemoryOverlay.contains"]


def run(prop, tier):
    v = common.Verdict(prop, "proof")
    v.functions = FUNCS
    known = common.load_known(prop)
    cfgs = list(membus.CONFIGS)
    units = [dict(config=c) for c in cfgs]
    for u in units:
        u["known"] = [e for e in known if common.unit_matches(e, u)]
    reps = common.run_units("contracts.membus:unit_laws", units, budget=600)
    le_cfgs = ["default", "rom+ram+romov", "sym-rom-overlay-1", "sym-ram-overlay-1"] if tier == "quick" else cfgs
    le = [dict(config=c, size=s) for c in le_cfgs for s in (1, 2, 3)]
    le += [dict(config=c, size=2, api="word") for c in le_cfgs] + [dict(config=c, size=3, api="long") for c in le_cfgs]
    reps += common.run_units("contracts.membus:unit_le", le, budget=900)
    v.absorb(reps, known)
    v.assumptions = [
        "configurations enumerated: " + ", ".join(f"{k}={membus.CONFIGS[k]}" for k in cfgs),
        "external image, card data, ROM image and overlay data are arbitrary byte arrays (z3 arrays behind a bytearray container contract)",
        "canonical form per the property: 24-bit wrap; >= 0x100000 is internal memory with offset & 0xFF, otherwise external & 0xFFFFF; the Python model has no RAM mirror window",
        "no keyboard overlay, no LCD controller attached, no emulator back-reference, tracing off (device windows are not memory and are outside these laws)",
        "Rust MemoryImage: NOT proved (no Rust verifier); bounded law check on the compiled code (canonical form there: 24-bit wrap, 0x100000-0x1000FF internal, otherwise external & 0xFFFFF through the mirror window; addresses 0x100100-0xFFFFFF only in the wrap law); RuntimeBus not decided",
    ]
    from props import rust_standin as RS
    vec = dict(memory=dict(seed=common.seed(), random_addresses=40 if tier == "quick" else 400))
    res = RS.run(vec, ["memory"])
    keep = (v.obligations, v.discharged)
    v.absorb(RS.reports(res, vec, ["memory"]), known, expect_obligations=False)
    v.obligations, v.discharged = keep
    v.bounded = [RS.summarize(res, "memory", "MemoryImage::load/store on the compiled crate, 7 configurations (default, read-only range, ROM overlay, RAM overlay, RAM mirror, two read-only ranges listed high-then-low, mirror+ROM+read-only): "
                                             f"byte write/read-back/frame over 102 boundary addresses (both with and without high address bits) + {vec['memory']['random_addresses']} seeded random ones as written and as probed locations; "
                                             "16/24-bit load and store vs. composition of byte accesses at the same addresses; 24-bit wrap for 200 random addresses per configuration; laws stated in the Rust test, no Python oracle"),
                 dict(part="sc62015/core/src/lib.rs RuntimeBus (device windows)", bound="not run", note="not decided")]
    v.samples = [dict(obligation="frame:other-locations", statement="forall a,b (32 bit), v: canon(a) != canon(b) => read(b) after write(a,v) == read(b) before"),
                 dict(obligation="rw:read-back", statement="forall a, v: canon(a) is RAM in this configuration => read(a) after write(a, v) == v"),
                 dict(obligation="le:store3:external_memory", statement="write_bytes(3,a,x) and three write_byte calls leave identical images")]
    rule = ("per configuration: read(b); read(a); write(a,v); read(a); read(b) on the real PCE500Memory with symbolic 32-bit a, b and byte v; "
            "obligations read-back, read-only, frame (incl. internal/external separation), alias agreement; little-endian composition for 8/16/24-bit accessors")
    return v.finish(f"./check {prop} --tier {tier}", rule, tier)
