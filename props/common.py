"""Shared runner: work-unit pool, known findings, replay files, evidence writer, exit codes."""
from __future__ import annotations

import hashlib
import json
import multiprocessing as mp
import os
import re
import signal
import subprocess
import sys
import time
import traceback

HERE = os.path.dirname(os.path.dirname(os.path.abspath(__file__)))
REPO = os.environ.get("VERIF_REPO", "/repo")
# runs against a scratch tree (VERIF_REPO=<dir>, used for seeded changes) must not overwrite the
# evidence of /repo itself
_SCRATCH = os.path.realpath(REPO) != "/repo"
EVID = os.path.join(HERE, "evidence") if not _SCRATCH else os.path.join("/tmp", "verif_scratch_evidence")
REPLAYS = os.path.join(HERE, "replays") if not _SCRATCH else os.path.join("/tmp", "verif_scratch_replays")
KNOWN = os.path.join(HERE, "known_findings.json")

EXIT_OK, EXIT_VIOLATION, EXIT_UNDECIDED, EXIT_ERROR = 0, 1, 2, 3

TRUSTED_BASE = [
    "CPython 3.12 executes the code under proof (the real function objects from the working tree)",
    "z3 5.1 (unsat answers), cvc5 1.0.3 on z3 'unknown'",
    "SYMX engine (/verif/symx): proxies, decision replay, obligation generation; guarded by selftest + native replay of every refutation",
    "namespace shims for int/isinstance/bytearray/bytes/struct/bool in the modules under proof",
    "64-bit bit-vector encoding of Python ints with interval-based no-overflow accounting",
    "binja_test_mocks (IL evaluator, byte cursor, token classes) executed, not verified",
]


def tier():
    t = os.environ.get("VERIF_TIER", "quick")
    for i, a in enumerate(sys.argv):
        if a == "--tier" and i + 1 < len(sys.argv):
            t = sys.argv[i + 1]
    return t if t in ("quick", "thorough") else "quick"


def seed():
    try:
        return int(os.environ.get("VERIF_SEED", "0"))
    except ValueError:
        return 0


def nprocs():
    return int(os.environ.get("VERIF_PROCS", str(min(16, os.cpu_count() or 4))))


# ---------------------------------------------------------------- pool
def _fresh_repo_modules():
    """A forked worker inherits whatever the parent imported.  If the parent imported the repository
    natively (enumerating forms, opcodes, ...) the evaluator module is there without its source
    transform; drop every repo / mock module so that the unit's own env.setup() starts clean."""
    ev = sys.modules.get("binja_test_mocks.eval_llil")
    if ev is None or getattr(ev, "__symx_transformed__", False):
        return
    for name in list(sys.modules):
        if name.split(".")[0] in ("sc62015", "pce500", "binja_test_mocks", "binaryninja", "plugin"):
            del sys.modules[name]
    for name in ("contracts.cpu", "contracts.blockind", "contracts.codec", "contracts.asmlayout", "contracts.asmrt"):
        m = sys.modules.get(name)
        if m is not None and hasattr(m, "_MODS"):
            m._MODS = None
    env = sys.modules.get("symx.env")
    if env is not None:
        env._done = False


def _worker(args):
    fn_path, unit, budget = args
    modname, fname = fn_path.split(":")
    t0 = time.time()

    def on_alarm(signum, frame):
        raise TimeoutError("unit wall budget")

    try:
        _fresh_repo_modules()
        mod = __import__(modname, fromlist=[fname])
        fn = getattr(mod, fname)
        signal.signal(signal.SIGALRM, on_alarm)
        signal.alarm(int(budget) + 30)
        try:
            rep = fn(unit)
        finally:
            signal.alarm(0)
        rep.setdefault("wall_s", round(time.time() - t0, 2))
        rep.setdefault("fn_path", fn_path)
        return rep
    except TimeoutError as e:
        return dict(unit=unit, status="undecided", error=str(e), obligations=0, proved=0, failed=[], nfailed=0,
                    unknown=0, stats={}, wall_s=round(time.time() - t0, 2))
    except BaseException as e:  # noqa: BLE001
        return dict(unit=unit, status="checker-error", error="".join(traceback.format_exception_only(type(e), e)).strip()
                    + " @ " + traceback.format_exc()[-1500:], obligations=0, proved=0, failed=[], nfailed=0, unknown=0,
                    stats={}, wall_s=round(time.time() - t0, 2))


def run_units(fn_path, units, budget=600, procs=None, init=None):
    """Run fn(unit)->report for every unit in a fork pool.  fn_path = 'module:function'."""
    procs = procs or nprocs()
    ctx = mp.get_context("fork")
    reports = []
    if procs <= 1 or len(units) <= 1:
        for u in units:
            reports.append(_worker((fn_path, u, budget)))
        return reports
    with ctx.Pool(processes=procs, maxtasksperchild=8) as pool:
        for rep in pool.imap_unordered(_worker, [(fn_path, u, budget) for u in units], chunksize=1):
            reports.append(rep)
    return reports


# ---------------------------------------------------------------- known findings
def load_known(prop):
    if not os.path.exists(KNOWN):
        return []
    data = json.load(open(KNOWN))
    return [e for e in data.get("findings", []) if e.get("property") == prop and e.get("status", "open") == "open"]


def unit_matches(entry, unit):
    m = entry.get("match", {})
    alts = m.get("unit", {})
    alts = alts if isinstance(alts, list) else [alts]

    def one(alt):
        for k, v in alt.items():
            uv = unit.get(k) if isinstance(unit, dict) else None
            if isinstance(v, list):
                if uv not in v:
                    return False
            elif uv != v:
                return False
        return True
    return any(one(a) for a in alts)


def match_known(entry, unit, ob):
    m = entry.get("match", {})
    if not unit_matches(entry, unit):
        return False
    name = ob.get("name", "")
    if "witness" in m:
        # witness-restricted entries are decided inside the harness (it re-proves the obligation
        # outside the union of the matching witness classes); only obligations it tagged belong here
        if name.endswith("@known:" + entry["id"]):
            return True
        return "@known:" in name and entry["id"] in str(ob.get("detail") or "")
    if "obligation" in m and not re.search(m["obligation"], name):
        return False
    if "detail" in m and not re.search(m["detail"], str(ob.get("detail") or "")):
        return False
    return True


# ---------------------------------------------------------------- replay
def write_replay(prop, unit, ob, extra=None):
    os.makedirs(REPLAYS, exist_ok=True)
    body = dict(property=prop, unit=unit, obligation=ob.get("name"), detail=ob.get("detail"),
                model=ob.get("model"), solver=ob.get("backend", "z3"), extra=extra or {},
                repo=REPO, fn_path=ob.get("fn_path"))
    h = hashlib.sha1(json.dumps(body, sort_keys=True, default=str).encode()).hexdigest()[:10]
    safe = re.sub(r"[^A-Za-z0-9_.-]", "_", str(ob.get("name")))
    path = os.path.join(REPLAYS, f"{prop}-{safe}-{h}.json")
    with open(path, "w") as f:
        json.dump(body, f, indent=1, default=str)
    return path


def native_replay(prop, path):
    """Run the native replayer (plain CPython, no shims) on a replay file.
    Returns ('violates'|'holds'|'error'|'no-input', text)."""
    cmd = [sys.executable, os.path.join(HERE, "props", "replay.py"), prop, path]
    env = dict(os.environ, VERIF_REPO=REPO, FORCE_BINJA_MOCK="1")
    try:
        p = subprocess.run(cmd, capture_output=True, text=True, timeout=300, env=env)
    except subprocess.TimeoutExpired:
        return "error", "replay timeout"
    out = (p.stdout + p.stderr).strip()
    if p.returncode == 1:
        return "violates", out
    if p.returncode == 0:
        return "holds", out
    if p.returncode == 4:
        return "no-input", out
    return "error", out


# ---------------------------------------------------------------- verdict + evidence
class Verdict:
    def __init__(self, prop, level="proof"):
        self.prop = prop
        self.level = level
        self.t0 = time.time()
        self.obligations = 0
        self.discharged = 0
        self.by_backend = {}
        self.violations = []      # (unit, ob, replay_path, replay_status)
        self.known = []           # (entry, unit, ob)
        self.undecided = []
        self.errors = []
        self.paths = 0
        self.queries = 0
        self.solver_s = 0.0
        self.units = 0
        self.samples = []
        self.bounded = []
        self.extra = {}
        self.assumptions = []
        self.functions = []
        self.kinds = {}
        self.vacuity = dict(units_with_zero_obligations=0, probes=0, probes_ok=0)

    def absorb(self, reports, known_entries=(), replay_extra=None, expect_obligations=True):
        for rep in reports:
            self.units += 1
            unit = rep.get("unit")
            st = rep.get("stats") or {}
            self.paths += st.get("paths", 0)
            self.queries += st.get("queries", 0)
            self.solver_s += st.get("solver_s", 0.0)
            for k, v in (rep.get("kinds") or {}).items():
                self.kinds[k] = self.kinds.get(k, 0) + v
            if rep.get("status") == "checker-error" or rep.get("status") == "engine-error":
                self.errors.append((unit, rep.get("error")))
                continue
            if rep.get("status") == "undecided":
                self.undecided.append((unit, rep.get("error")))
            if rep.get("unknown"):
                self.undecided.append((unit, f"{rep['unknown']} obligation(s) with solver unknown"))
            for n in rep.get("undecided_notes") or []:
                self.undecided.append((unit, n))
            nf_known = 0
            for ob in rep.get("failed") or []:
                hit = None
                for e in known_entries:
                    if match_known(e, unit, ob):
                        hit = e
                        break
                if hit is not None:
                    self.known.append((hit, unit, ob))
                    for e in known_entries:
                        if e is not hit and "@known:" in ob.get("name", "") and e.get("id", "?") in str(ob.get("detail") or ""):
                            self.known.append((e, unit, ob))
                    nf_known += 1
                else:
                    if rep.get("fn_path") and isinstance(ob, dict):
                        ob = dict(ob, fn_path=rep["fn_path"])
                    self.violations.append([unit, ob, None, None])
            more = rep.get("nfailed", 0) - len(rep.get("failed") or [])
            if more > 0:
                # failures beyond the stored sample: count as violations unless every stored one of this unit was known
                if nf_known == len(rep.get("failed") or []) and nf_known > 0:
                    nf_known += more
                else:
                    self.violations.append([unit, dict(name="(further failed obligations)", detail=f"{more} more", model=None), None, None])
            self.obligations += rep.get("obligations", 0) - nf_known
            self.discharged += rep.get("proved", 0)
            for b, n in (rep.get("by_backend") or {}).items():
                self.by_backend[b] = self.by_backend.get(b, 0) + n
            if expect_obligations and rep.get("obligations", 0) == 0 and rep.get("status") == "ok" and not rep.get("allow_empty"):
                self.vacuity["units_with_zero_obligations"] += 1
            if len(self.samples) < 6 and rep.get("sample"):
                self.samples.append(rep["sample"])

    def finish(self, checker_cmd, rule, tier_name):
        prop = self.prop
        # native replay of refutations
        lines = []
        confirmed = 0
        # replay a bounded number of refutations (distinct obligation names first); the others keep
        # their replay file and are listed in the evidence as not replayed
        order, seen_names = [], set()
        for v in self.violations:
            nm = (v[1].get("name"), (v[0] or {}).get("opcode") if isinstance(v[0], dict) else None)
            if nm not in seen_names:
                seen_names.add(nm)
                order.append(v)
        order += [v for v in self.violations if v not in order]
        order.sort(key=lambda v: v[1].get("name") == "(further failed obligations)")     # overflow buckets last (stable)
        budget = int(os.environ.get("VERIF_MAX_REPLAYS", "16"))
        t_replay = time.time()
        for n, v in enumerate(order):
            unit, ob, _, _ = v
            path = write_replay(prop, unit, ob)
            if n >= budget or time.time() - t_replay > 900:
                v[2], v[3] = path, "not-replayed"
                continue
            status, text = native_replay(prop, path) if ob.get("model") is not None else ("no-input", "")
            if ob.get("name") == "(further failed obligations)":
                # the overflow bucket of a unit inherits the fate of that unit's stored failures: it is a violation only
                # if one of them was confirmed natively; if they all turned out to be engine artefacts it is one too
                sib = [w for w in self.violations if w is not v and w[0] == unit and w[1].get("name") != "(further failed obligations)"]
                done = [w for w in sib if w[3] not in (None, "not-replayed")]
                if done and not any(w[3] in ("violates", "no-input") for w in done):
                    status = "holds" if all(w[3] == "holds" for w in done) else "error"
                    text = "the stored failures of this unit did not reproduce natively"
            v[2], v[3] = path, status
            if status == "violates":
                confirmed += 1
                lines.append(f"VIOLATION property={prop} replay={path}")
            elif status == "no-input":
                confirmed += 1
                lines.append(f"VIOLATION property={prop} replay={path} no-failing-input-found")
            elif status == "holds":
                self.errors.append((unit, f"refutation of {ob.get('name')} did not reproduce natively ({path}): engine/shim/spec disagreement"))
            else:
                self.errors.append((unit, f"native replay failed for {path}: {text[-400:]}"))
        seen = set()
        for e, unit, ob in self.known:
            key = e.get("id")
            if key in seen:
                continue
            seen.add(key)
            print(f"KNOWN-FINDING: property={prop} {e.get('what')}")
        for ln in lines[:50]:
            print(ln)
        if self.vacuity["units_with_zero_obligations"]:
            self.errors.append((None, f"{self.vacuity['units_with_zero_obligations']} work unit(s) produced zero obligations (vacuity guard)"))
        if self.obligations == 0:
            self.errors.append((None, "zero obligations generated (vacuity guard)"))
        code = EXIT_OK
        if self.errors:
            code = EXIT_ERROR
        if self.undecided and code == EXIT_OK:
            code = EXIT_UNDECIDED
        if confirmed:
            code = EXIT_VIOLATION
        wall = round(time.time() - self.t0, 2)
        cov = dict(
            obligations=self.obligations, discharged=self.discharged,
            checker_cmd=checker_cmd, trusted_base=TRUSTED_BASE,
            by_backend=self.by_backend, work_units=self.units, paths=self.paths,
            solver_queries=self.queries, solver_s=round(self.solver_s, 2),
            path_outcomes=self.kinds,
            undecided=[dict(unit=u, why=w) for u, w in self.undecided][:40], n_undecided=len(self.undecided),
            checker_errors=[dict(unit=u, why=w) for u, w in self.errors][:20],
            known_findings=[dict(id=e.get("id"), unit=u, obligation=o.get("name"), detail=o.get("detail")) for e, u, o in self.known][:60],
            n_known_finding_instances=len(self.known),
            violations=[dict(unit=u, obligation=o.get("name"), detail=o.get("detail"), replay=p, native=s) for u, o, p, s in self.violations][:40],
            bounded_parts=self.bounded, vacuity=self.vacuity,
            functions_under_contract=self.functions,
            samples=self.samples or [dict(note="no sample recorded")],
            rule=rule,
            evaluations=self.paths, distinct_nontrivial=self.obligations,
            exit_code=code,
        )
        cov.update(self.extra)
        ev = dict(property_id=prop, tier=tier_name, seed=seed(), level=self.level, coverage=cov,
                  assumptions=self.assumptions, wall_s=wall, violations=confirmed)
        os.makedirs(EVID, exist_ok=True)
        tmp = os.path.join(EVID, f"{prop}.json.tmp")
        with open(tmp, "w") as f:
            json.dump(ev, f, indent=1, default=str)
        os.replace(tmp, os.path.join(EVID, f"{prop}.json"))
        print(f"[{prop}] tier={tier_name} units={self.units} obligations={self.obligations} discharged={self.discharged} "
              f"known={len(self.known)} violations={confirmed} undecided={len(self.undecided)} errors={len(self.errors)} "
              f"paths={self.paths} solver_s={self.solver_s:.1f} wall={wall}s exit={code}")
        for u, w in self.undecided[:8]:
            print(f"  undecided: {u}: {w}")
        for u, w in self.errors[:8]:
            print(f"  checker-error: {u}: {str(w)[:600]}")
        return code


def prove_with_known(eng, name, cond, detail, known, namespace=None, text=None):
    """eng.prove(name, cond); when it fails and listed findings with a witness class match, re-prove the
    obligation outside the union of those classes: inside only => tagged as that known finding,
    otherwise the counter-model outside the classes is reported (a different violation)."""
    import z3
    r = eng.prove(name, cond, detail=detail)
    if r is not False or not known:
        return r
    hits = []
    for e in known:
        m = e.get("match", {})
        if "witness" not in m:
            continue
        if not re.search(m.get("obligation", ""), name):
            continue
        if text is not None and not re.search(m.get("detail", ""), text):
            continue
        hits.append(e)
    if not hits:
        return r
    ns = {"__builtins__": {}, "z3": z3}
    ns.update(namespace or {})
    wits = [eval(e["match"]["witness"], ns, dict(eng.inputs)) for e in hits]
    o = eng.run.obligations[-1]
    r2 = eng.prove(name + "@outside-known-witness", z3.Or(wits + [cond]), detail=detail)
    aux = eng.run.obligations.pop()
    if r2:
        o.name = name + "@known:" + hits[0]["id"]
        o.detail = f"{detail or ''} [only within the witness class of {', '.join(e['id'] for e in hits)}]"
    else:
        o.model = aux.model
    return r
