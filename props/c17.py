"""C17: duplicated tables and constants agree (ground obligations, decided by evaluation)."""
from props import common


def run(prop, tier):
    v = common.Verdict(prop, "proof")
    v.functions = ["(tables, not functions) sc62015.pysc62015.instr.opcode_table:OPCODES", "opcodes:PRE_TABLE/SINGLE_ADDRESSABLE_OPCODES/REGISTERS/REG_SIZES/IMEMRegisters/INTERRUPT_VECTOR_ADDR/ENTRY_POINT_ADDR",
                   "constants:*", "emulator:REGISTER_SIZE/Registers._SUBREG_INFO/PC_MASK", "arch:SC62015.regs", "view:SEGMENTS",
                   "core/src/llama/opcodes.rs:OPCODES", "core/src/llama/state.rs:mask_for", "core/src/llama/eval.rs:PRE_MODES/SINGLE_ADDRESSABLE_OPCODES/vectors",
                   "core/src/memory.rs:constants", "core/src/snapshot.rs:SNAPSHOT_REGISTER_LAYOUT", "pce500.emulator:_SNAPSHOT_REGISTER_LAYOUT"]
    known = common.load_known(prop)
    reps = common.run_units("contracts.tables:unit_tables", [dict(kind="tables")], budget=120)
    v.absorb(reps, known)
    v.assumptions = [
        "Python side read as module attributes of the working tree; Rust side read as source text, tokenised (comments, whitespace and #[...] attributes dropped); Rust constant expressions other than integer literals are not evaluated",
        "canonical spelling of a Python operand template (class + width/size/order/allowed_modes -> Rust OperandKind text) is a fixed table of this check, not scripts/generate_llama_opcodes.py (that generator derives EMemIMemWidth(1) for 9A-9E/BA-BE from an inherited width() and disagrees with both tables)",
        "the Rust InstrKind column has no Python counterpart and is not compared",
    ]
    v.samples = [dict(obligation="opcode[56]:operands", statement="Python [RegIMemOffset(DEST_IMEM)] == Rust [RegIMemOffset(RegImemOffsetKind::DestImem)]"),
                 dict(obligation="pre-table[27]", statement="PRE_TABLE[1][0x27], PRE_TABLE[2][0x27] == eval.rs PRE_MODES entry 0x27"),
                 dict(obligation="view:SC62015FullView:internal-ram-segment", statement="segment == (INTERNAL_MEMORY_START, INTERNAL_MEMORY_LENGTH)")]
    rule = "one ground equality per duplicated item (256 opcode entries x 4 fields, PRE table, single-addressable set, register widths/sizes/sub-registers, IMEM offsets, vectors, address-space constants, snapshot layout, view segments), decided by evaluation"
    v.extra["exhaustive"] = True
    return v.finish(f"./check {prop} --tier {tier}", rule, tier)
