"""C12: the contract-sized clauses (delivery gate + frame of step(), HALT wake, IR/RETI inverse).
The schedule/liveness clauses of the property and the Rust runtime are not decided."""
from props import common

FUNCS = ["pce500.emulator:PCE500Emulator.step (delivery gate, halted branch, end-of-interrupt block after RETI; cpu.execute_instruction cut by its contract)",
         "PCE500Emulator.__init__/load_rom (executed)", "pce500.memory:PCE500Memory.read_byte/write_byte/write_bytes/read_long (executed in context)",
         "PCE500Emulator.step after a really executed OFF / HALT instruction (timers: targets in a window around the cycle, concrete periods)",
         "sc62015.pysc62015.instr.instructions:IR.lift/RETI.lift (IR/RETI inverse lemma, shared with C05)"]


def run(prop, tier):
    v = common.Verdict(prop, "proof")
    v.functions = FUNCS
    known = common.load_known(prop)
    units = [dict(fn="unit_gate", kind="delivery gate", known=[e for e in known if "witness" in e.get("match", {})]),
             dict(fn="unit_gate", in_interrupt=True, kind="no delivery inside a handler"),
             dict(fn="unit_halt", kind="halt wake-up"),
             dict(fn="unit_reti", kind="end of handler (RETI step)"),
             dict(fn="unit_off", op="OFF", kind="powered-off CPU stops both timers"),
             dict(fn="unit_off", op="HALT", kind="contrast: halted CPU keeps its timers")]
    reps = common.run_units("contracts.irq:unit_any", units, budget=900)
    reps += common.run_units("contracts.cpu_lemmas:unit_lemmas", [dict(kind="IR/RETI inverse lemma (with C05)")], budget=300)
    v.absorb(reps, known)
    v.assumptions = [
        "one step of the real PCE500Emulator: IMR, ISR, pending flag, F symbolic; S symbolic inside plain RAM 0xB9000-0xBA000; PC=0x1000; ROM image with a concrete interrupt vector; timers disabled; no key latched",
        "cpu.execute_instruction / decode_instruction replaced by a recording stub (callee cut; the instruction contracts are C04/C05)",
        "gate specification from the property: delivered <=> pending and not already in a handler and IMR bit 7 set and (IMR & ISR & 0x7F) != 0",
        "NOT decided (no contract within reach): 'taken promptly' beyond the same step boundary, HALT/OFF timing over several steps, interleavings of timer/key events with instruction boundaries; the Rust runtime (CoreRuntime::step, deliver_pending_irq) is NOT proved, a bounded law check runs on the compiled code",
    ]
    from props import rust_standin as RS
    masks = [0x00, 0x01, 0x02, 0x04, 0x08, 0x10, 0x20, 0x40, 0x0F, 0x70, 0x7F, 0x05, 0x0A]
    vec = dict(irq=dict(imr_values=[m | b for b in (0x00, 0x80) for m in masks]) if tier == "quick" else dict())
    sc = [(64, 100, 40), (50, 70, 30), (40, 40, 25), (97, 31, 60), (30, 200, 10), (16, 24, 20)]
    if tier != "quick":
        sc += [(m, s, h) for m in (20, 33, 128) for s in (21, 77) for h in (5, 50, 150)]
    vec["irq_timers"] = dict(cases=[dict(mp=m, sp=s, handler_nops=h, steps=3000 if tier == "quick" else 12000) for m, s, h in sc])
    vec["irq_reti"] = dict(all=True)
    vec["split"] = dict(totals=[12, 40])
    res = RS.run(vec, ["irq", "irq_timers", "irq_reti", "split"], timeout=3000)
    keep = (v.obligations, v.discharged)
    v.absorb(RS.reports(res, vec, ["irq", "irq_timers", "irq_reti", "split"]), known, expect_obligations=False)
    v.obligations, v.discharged = keep
    v.bounded = [RS.summarize(res, "irq", "one CoreRuntime::step over a NOP on the compiled crate for IMR in %s x all 256 ISR values x pending flag x in-interrupt flag x running/halted: taken only if master enable and "
                                          "mask&status allow it, stack moves by 5 or 0, frame layout PC/F/IMR, master enable cleared, continues at the vector, bookkeeping flags; otherwise stack, IMR untouched and PC after the NOP, "
                                          "pending request kept; deliverable request taken at this boundary; HALT wakes iff ISR != 0 and executes nothing otherwise" % ("26 values (both master-enable settings x 13 source masks)" if tier == "quick" else "all 256 values")),
                 RS.summarize(res, "irq_timers", f"{len(sc)} scenarios on the compiled crate (main program NOPs, handler = n NOPs + RETI, both timers enabled and unmasked, periods/handler length {sc[:6]}...): "
                                                     "stepped one instruction at a time; a handler for a source is entered only after an unserved expiry of that source, and every expiry is served before the run and a drain phase end"),
                 RS.summarize(res, "irq_reti", "handler round trip on the compiled crate (NOP program, handler = RETI, timers off) for every non-empty set of pending sources among bits 0-3 x every source mask x master enable on/off: "
                                                   "handler entered iff deliverable; after the matching RETI at most one status bit was acknowledged and it belongs to an enabled source; masked pending requests are still pending"),
                 RS.summarize(res, "split", "HALT / OFF executed in the middle of a host batch step(n) with both timers running and unmasked (and four other programs, shared with C07): registers, power state, status "
                                                "register, timer targets, cycle count and writes after step(n) in one or several calls equal n single steps - a halted or powered-off CPU executes nothing more in that batch"),
                 dict(part="schedule/liveness clauses (interleavings over several steps), OFF state, RETI in the Rust evaluator", bound="not covered", note="not decided: whole-history properties are outside this family")]
    v.samples = [dict(obligation="gate:enabled-and-pending=>delivered", statement="forall IMR,ISR,F,S,pending: pending and IRM and (IMR&ISR&0x7F) != 0 => the step pushes the 5-byte frame and continues at the vector"),
                 dict(obligation="halt:wakes-iff-status-pending", statement="halted' == (ISR == 0) after one step of a halted CPU")]
    rule = "real step() explored over symbolic IMR/ISR/pending/F/S (83 paths); obligations: gate both directions, frame layout, master enable cleared, nothing else written, pending flag kept when masked; HALT wake; IR/RETI lemma"
    return v.finish(f"./check {prop} --tier {tier}", rule, tier)
