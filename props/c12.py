"""C12: the contract-sized clauses (delivery gate + frame of step(), HALT wake, IR/RETI inverse).
The schedule/liveness clauses of the property and the Rust runtime are not decided."""
from props import common

FUNCS = ["pce500.emulator:PCE500Emulator.step (delivery gate, halted branch; cpu.execute_instruction cut by its contract)",
         "PCE500Emulator.__init__/load_rom (executed)", "pce500.memory:PCE500Memory.read_byte/write_byte/write_bytes/read_long (executed in context)",
         "sc62015.pysc62015.instr.instructions:IR.lift/RETI.lift (IR/RETI inverse lemma, shared with C05)"]


def run(prop, tier):
    v = common.Verdict(prop, "proof")
    v.functions = FUNCS
    known = common.load_known(prop)
    units = [dict(fn="unit_gate", kind="delivery gate", known=[e for e in known if "witness" in e.get("match", {})]),
             dict(fn="unit_gate", in_interrupt=True, kind="no delivery inside a handler"),
             dict(fn="unit_halt", kind="halt wake-up")]
    reps = common.run_units("contracts.irq:unit_any", units, budget=900)
    reps += common.run_units("contracts.cpu_lemmas:unit_lemmas", [dict(kind="IR/RETI inverse lemma (with C05)")], budget=300)
    v.absorb(reps, known)
    v.assumptions = [
        "one step of the real PCE500Emulator: IMR, ISR, pending flag, F symbolic; S symbolic inside plain RAM 0xB9000-0xBA000; PC=0x1000; ROM image with a concrete interrupt vector; timers disabled; no key latched",
        "cpu.execute_instruction / decode_instruction replaced by a recording stub (callee cut; the instruction contracts are C04/C05)",
        "gate specification from the property: delivered <=> pending and not already in a handler and IMR bit 7 set and (IMR & ISR & 0x7F) != 0",
        "NOT decided (no contract within reach): 'taken promptly' beyond the same step boundary, HALT/OFF timing over several steps, interleavings of timer/key events with instruction boundaries, and the whole Rust runtime (CoreRuntime::step, deliver_pending_irq)",
    ]
    v.bounded = [dict(part="schedule/liveness clauses and Rust runtime", bound="not covered", note="not decided: whole-history properties are outside this family")]
    v.samples = [dict(obligation="gate:enabled-and-pending=>delivered", statement="forall IMR,ISR,F,S,pending: pending and IRM and (IMR&ISR&0x7F) != 0 => the step pushes the 5-byte frame and continues at the vector"),
                 dict(obligation="halt:wakes-iff-status-pending", statement="halted' == (ISR == 0) after one step of a halted CPU")]
    rule = "real step() explored over symbolic IMR/ISR/pending/F/S (83 paths); obligations: gate both directions, frame layout, master enable cleared, nothing else written, pending flag kept when masked; HALT wake; IR/RETI lemma"
    return v.finish(f"./check {prop} --tier {tier}", rule, tier)
