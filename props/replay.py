"""Native replay of a counter-model: plain CPython, real functions, no proxies, no shims.

usage: replay.py <PROP> <replay.json>
exit 1: the concrete input violates the contract on the current tree (violation confirmed)
exit 0: the concrete input satisfies the contract (the refutation did not reproduce)
exit 4: the replay file carries no concrete input
exit 3: replayer error
"""
from __future__ import annotations

import json
import os
import sys

HERE = os.path.dirname(os.path.dirname(os.path.abspath(__file__)))
sys.path.insert(0, HERE)
REPO = os.environ.get("VERIF_REPO", "/repo")
os.environ["FORCE_BINJA_MOCK"] = "1"
if REPO in sys.path:
    sys.path.remove(REPO)
sys.path.insert(0, REPO)


def _cpu(body):
    """C03/C04.  Induction units (loop rule): the counter-model is a havoced mid-loop state, not an
    instruction input; a few whole-instruction inputs derived from it are tried natively, and when
    none fails the answer is 'no failing input found' (exit 4), never 'holds'."""
    unit, model = body["unit"], body["model"]
    if not unit.get("induction") or model is None:
        return _cpu_once(body)
    j = model.get("j", 0)
    cands = []
    for n in (model.get("I", 0), j + 1, j + 2, 2, 3, 5):
        if 1 <= n <= 300 and n not in cands:
            cands.append(n)
    tried = []
    for n in cands:
        for f in dict.fromkeys((model.get("F", 0), model.get("hF", 0), model.get("F", 0) ^ 1)):
            b = dict(body, unit=dict(unit, block_n=n, induction=False), model=dict(model, F=f))
            code, text = _cpu_once(b)
            tried.append(f"I={n},F={f:#x}: {text[:80]}")
            if code == 1:
                return 1, f"(whole instruction, I={n}, F={f:#x}) " + text
    return 4, "loop-rule obligation failed; no whole-instruction input derived from the counter-model fails natively: " + " | ".join(tried[:4])


def _cpu_once(body):
    import z3
    from binja_test_mocks import binja_api  # noqa: F401
    from sc62015.pysc62015 import emulator as EMU
    from sc62015.pysc62015.instr import opcodes as OPC
    from binja_test_mocks.tokens import asm_str
    from spec import isa

    unit, model = body["unit"], body["model"]
    if model is None:
        return 4, "no model"
    cells = {int(k): v for k, v in (model.get("@cells") or {}).items()}
    addr = model.get("addr", 0x1000)
    code = ([unit["pre"]] if unit.get("pre") is not None else []) + [unit["opcode"]]
    for i, b in enumerate(code):
        cells[addr + i] = b
    mem = dict(cells)
    reads, writes = [], []

    def rd(a):
        reads.append(a)
        return mem.get(a, 0)

    def wr(a, v):
        writes.append(a)
        mem[a] = v

    emu = EMU.Emulator(EMU.Memory(rd, wr), reset_on_init=False)
    RN = EMU.RegisterName
    init = {}
    for r in ("BA", "I", "X", "Y", "U", "S", "F"):
        init[r] = model.get(r, 0)
    if unit.get("block_n") is not None:
        init["I"] = unit["block_n"]
    for r, v in init.items():
        emu.regs._values[RN[r]] = v
    for i in range(EMU.NUM_TEMP_REGISTERS):
        emu.regs._values[RN[f"TEMP{i}"]] = model.get(f"TEMP{i}", 0)
    emu.regs._values[RN.PC] = model.get("PC0", 0)
    halted0 = emu.state.halted
    try:
        ev = emu.execute_instruction(addr)
    except OPC.InvalidInstruction:
        return 0, "rejected natively"
    except Exception as e:  # noqa: BLE001
        return 1, f"native execution raised {type(e).__name__}: {e}"
    instr = ev.instruction
    if isinstance(instr, EMU._FallbackInstruction):
        return 0, "fallback natively"
    text = asm_str(instr.render())
    names = {m.name: int(m) for m in OPC.IMEMRegisters}
    arr = z3.K(z3.BitVecSort(64), z3.BitVecVal(0, 8))
    for a, v in cells.items():
        arr = z3.Store(arr, z3.BitVecVal(a, 64), z3.BitVecVal(v, 8))
    st = isa.State({k: isa.bv(v) for k, v in init.items()} | {"PC": isa.bv(0)}, arr)
    try:
        isa.execute(text, {}, names, st, isa.bv(addr), instr.length(), block_limit=unit.get("block_n"))
    except isa.NotSpecified as e:
        return 0, f"not specified: {e}"
    S = z3.simplify
    if st.defined and not z3.is_true(S(z3.And(st.defined))):
        return 0, f"input outside the documented domain: {text}"
    problems = []
    free = st.free
    fmask = 0xFF
    if "C" in free:
        fmask &= ~1
    if "Z" in free:
        fmask &= ~2
    if "Fhi" in free:
        fmask &= 3
    for r in ("BA", "I", "X", "Y", "U", "S", "PC"):
        want = S(st.r[r]).as_long()
        got = emu.regs.get(RN[r])
        if want != got:
            problems.append(f"{r}: documented {want:#x}, executed {got:#x}")
    want, got = S(st.r["F"]).as_long(), emu.regs.get(RN.F)
    if (want & fmask) != (got & fmask):
        problems.append(f"F: documented {want:#x}, executed {got:#x} (mask {fmask:#x})")
    # memory: every cell either side wrote
    spec_addrs = set()
    cur = st.mem
    while z3.is_store(cur):
        a, i, v = cur.children()
        iv = S(i)
        if z3.is_bv_value(iv):
            spec_addrs.add(iv.as_long())
        cur = a
    mfree = {}
    for f in free:
        if isinstance(f, tuple) and f[0] == "membits":
            mfree[S(isa.bv(f[1])).as_long()] = f[2]
    for a in sorted(spec_addrs | set(writes)):
        want = S(z3.Select(st.mem, z3.BitVecVal(a, 64))).as_long()
        got = mem.get(a, 0)
        m = 0xFF & ~mfree.get(a, 0)
        if (want & m) != (got & m):
            problems.append(f"mem[{a:#x}]: documented {want:#x}, executed {got:#x}")
    if st.halted is not None and bool(emu.state.halted) != st.halted:
        problems.append("halted state")
    if st.halted is None and emu.state.halted != halted0:
        problems.append("halted state changed")
    allowed = {addr + k for k in range(instr.length())} | {S(x).as_long() for x, _ in st.reads}
    extra = sorted(set(reads) - allowed)
    if extra:
        problems.append("reads outside the denoted locations: " + ", ".join(hex(a) for a in extra[:8]))
    if problems:
        return 1, f"{text}: " + "; ".join(problems)
    return 0, f"{text}: contract holds natively"


def _regs(body):
    """C08 set/get contracts replayed on plain ints."""
    from binja_test_mocks import binja_api  # noqa: F401
    from sc62015.pysc62015 import emulator as EMU
    import z3
    from spec import regfile as RF
    unit, model = body["unit"], body["model"]
    if model is None or "reg" not in unit:
        return 4, "no concrete input for this obligation"
    regs = EMU.Registers()
    view = {}
    for b in RF.BASE_MASK:
        regs._values[EMU.RegisterName[b]] = model.get(b, 0)
        view[b] = RF.bv(model.get(b, 0))
    v = model.get("v", 0)
    if v >= 1 << 63:
        v -= 1 << 64
    r = unit["reg"]
    api = unit.get("api", "enum")
    if api == "enum":
        regs.set(EMU.RegisterName[r], v)
    elif api == "name":
        regs.set_by_name(r, v)
    else:
        regs.set_flag({"FC": "C", "FZ": "Z"}[r], v)
    want = RF.set_(view, r, RF.bv(v & ((1 << 64) - 1)))
    bad = []
    for b in RF.BASE_MASK:
        w = z3.simplify(want[b]).as_long()
        g = regs._values[EMU.RegisterName[b]]
        if w != g:
            bad.append(f"{b}: spec {w:#x}, stored {g:#x}")
    for q in RF.ALL:
        w = z3.simplify(RF.get(want, q)).as_long()
        g = regs.get(EMU.RegisterName[q])
        if w != g:
            bad.append(f"get({q}): spec {w:#x}, got {g:#x}")
    if bad:
        return 1, f"set({r}, {v:#x}) via {api}: " + "; ".join(bad[:6])
    return 0, "register contract holds natively"


def _cpu_branch(body):
    """C05: branch facts from the real analyze() vs the PC the real execution reaches."""
    name = body.get("obligation") or ""
    if name.startswith("reg:") or name in ("mem", "reads", "halted"):
        return _cpu(body)
    from binja_test_mocks import binja_api  # noqa: F401
    from binaryninja.enums import BranchType as BT
    from sc62015.pysc62015 import emulator as EMU
    from binja_test_mocks.tokens import asm_str
    import re
    unit, model = body["unit"], body["model"]
    if model is None:
        return 4, "no model"
    cells = {int(k): v for k, v in (model.get("@cells") or {}).items()}
    addr = model.get("addr", 0x1000)
    code = ([unit["pre"]] if unit.get("pre") is not None else []) + [unit["opcode"]]
    for i, b in enumerate(code):
        cells[addr + i] = b
    mem = dict(cells)
    emu = EMU.Emulator(EMU.Memory(lambda a: mem.get(a, 0), lambda a, v: mem.__setitem__(a, v)), reset_on_init=False)
    RN = EMU.RegisterName
    for r in ("BA", "I", "X", "Y", "U", "S", "F"):
        emu.regs._values[RN[r]] = model.get(r, 0)
    if unit.get("block_n") is not None:
        emu.regs._values[RN.I] = unit["block_n"]
    f0 = model.get("F", 0)
    ev = emu.execute_instruction(addr)
    instr, info = ev.instruction, ev.instruction_info
    text = asm_str(instr.render())
    pc = emu.regs.get(RN.PC)
    nxt = (addr + instr.length()) & 0xFFFFF
    mn = text.split()[0]
    m = re.fullmatch(r"(JP|JR)(Z|NZ|C|NC)", mn)
    taken = None
    if m:
        taken = {"Z": bool(f0 & 2), "NZ": not (f0 & 2), "C": bool(f0 & 1), "NC": not (f0 & 1)}[m.group(2)]
    br = [(b.type, b.target) for b in info.branches]
    probs = []
    if info.length != instr.length():
        probs.append(f"info.length {info.length} != {instr.length()}")
    if not br and pc != nxt and mn != "IR":
        probs.append(f"no branch reported but PC={pc:#x} != next {nxt:#x}")
    for t, tgt in br:
        if t in (BT.UnconditionalBranch, BT.CallDestination) and (tgt & 0xFFFFF) != pc:
            probs.append(f"{t.name} target {tgt:#x} but PC={pc:#x}")
        if t == BT.TrueBranch and taken and (tgt & 0xFFFFF) != pc:
            probs.append(f"TrueBranch target {tgt:#x} but taken PC={pc:#x}")
        if t == BT.FalseBranch and taken is False and (tgt & 0xFFFFF) != pc:
            probs.append(f"FalseBranch target {tgt:#x} but not-taken PC={pc:#x}")
        if t == BT.FalseBranch and (tgt & 0xFFFFF) != nxt:
            probs.append(f"FalseBranch target {tgt:#x} is not address+length {nxt:#x}")
    if probs:
        return 1, f"{text} @ {addr:#x}: " + "; ".join(probs)
    return 0, f"{text} @ {addr:#x}: branch facts agree with execution natively"


def _cpu_hist(body):
    """C07: the two runs of the history harness replayed natively: fresh emulator vs emulator that
    first executed the history instruction, same architectural inputs, TEMP registers from the model."""
    from binja_test_mocks import binja_api  # noqa: F401
    from sc62015.pysc62015 import emulator as EMU
    from contracts import cpu as CPU
    unit, model = body["unit"], body["model"]
    if model is None or "hist" not in unit:
        return 4, "no concrete input"
    RN = EMU.RegisterName
    addr = 0x1000
    cells = {int(k): v for k, v in (model.get("@cells") or {}).items()}
    code = ([unit["pre"]] if unit.get("pre") is not None else []) + [unit["opcode"]]
    for i, b in enumerate(code):
        cells[addr + i] = b
    regs = {r: model.get(r, 0) for r in ("BA", "I", "X", "Y", "U", "S", "F")}
    if unit.get("block_n") is not None:
        regs["I"] = unit["block_n"]

    def load(e, tag):
        for r, v in regs.items():
            e.regs.set(RN[r], v)
        e.regs.set(RN.PC, model.get("PC0", 0))
        for i in range(EMU.NUM_TEMP_REGISTERS):
            e.regs._values[RN[f"TEMP{i}"]] = model.get(f"{tag}TEMP{i}", 0)
        e.state.halted = False

    def run(e):
        try:
            ev = e.execute_instruction(addr)
            return ("ok", ev.instruction.name(), ev.instruction.length())
        except Exception as ex:  # noqa: BLE001
            return ("exception", type(ex).__name__)

    ma = dict(cells)
    ea = EMU.Emulator(EMU.Memory(lambda a: ma.get(a, 0), lambda a, v: ma.__setitem__(a, v & 0xFF)), reset_on_init=False)
    load(ea, "a")
    ra = run(ea)
    desc, hbytes, haddr = CPU.HISTORY[unit["hist"]]
    haddr = addr if haddr is None else haddr
    hb = hbytes if hbytes is not None else code + [0] * 6
    hm = {}
    for i in range(16):
        hm[haddr + i] = hb[i] if i < len(hb) else 0
    cur = {"m": hm, "default": 0x11}
    eb = EMU.Emulator(EMU.Memory(lambda a: cur["m"].get(a, cur["default"]), lambda a, v: cur["m"].__setitem__(a, v & 0xFF)), reset_on_init=False)
    for r, v in (("BA", 0x1234), ("I", 2), ("X", 0x20010), ("Y", 0x20020), ("U", 0x30000), ("S", 0x40000), ("F", 1)):
        eb.regs.set(RN[r], v)
    try:
        eb.execute_instruction(haddr)
    except Exception:  # noqa: BLE001
        pass
    mb = dict(cells)
    cur["m"], cur["default"] = mb, 0
    load(eb, "b")
    rb = run(eb)
    probs = []
    if ra != rb:
        probs.append(f"outcome {ra} vs {rb}")
    for r in ("BA", "I", "X", "Y", "U", "S", "F", "PC"):
        if ea.regs.get(RN[r]) != eb.regs.get(RN[r]):
            probs.append(f"{r}: fresh {ea.regs.get(RN[r]):#x}, after history {eb.regs.get(RN[r]):#x}")
    if {a: v for a, v in ma.items() if v} != {a: v for a, v in mb.items() if v}:
        probs.append("memory images differ")
    if ea.state.halted != eb.state.halted:
        probs.append("halted differs")
    if probs:
        return 1, f"opcode {unit['opcode']:#x} after history '{desc}': " + "; ".join(probs)
    return 0, "both runs agree natively"


HANDLERS = {}


def handler(*props):
    def deco(fn):
        for p in props:
            HANDLERS[p] = fn
        return fn
    return deco


def _snapshot(body):
    """C13 snapshot restore point, natively: real save_snapshot / load_snapshot through a real file."""
    unit, model = body["unit"], body["model"]
    if model is None or unit.get("kind") != "snapshot-restore":
        return 4, "no native replayer for this obligation"
    import os
    import tempfile
    from binja_test_mocks import binja_api  # noqa: F401
    import pce500.emulator as PE

    def sgn(v):
        return v

    a = PE.PCE500Emulator(save_lcd_on_exit=False)
    vals = {k: int(model.get(k, 0)) for k in ("mp", "sp", "nm", "ns", "cyc")}
    en = bool(model.get("enabled", True))
    a._scheduler.mti_period, a._scheduler.sti_period = vals["mp"], vals["sp"]
    a._scheduler._next_mti, a._scheduler._next_sti = vals["nm"], vals["ns"]
    a._scheduler.enabled = en
    a._timer_enabled = en
    a.cycle_count = vals["cyc"]
    a._in_interrupt = bool(unit.get("in_interrupt", False))
    with tempfile.TemporaryDirectory(prefix="symx_snap_") as tmp:
        p = os.path.join(tmp, "s.pcsnap")
        a.save_snapshot(p)
        b = PE.PCE500Emulator(save_lcd_on_exit=False)
        b.load_snapshot(p)
    s = b._scheduler
    got = dict(mp=s.mti_period, sp=s.sti_period, nm=s.next_mti, ns=s.next_sti, cyc=b.cycle_count)
    bad = [f"{k}: saved {vals[k]}, restored {got[k]}" for k in vals if vals[k] != got[k]]
    if bool(s.enabled) != en:
        bad.append(f"enabled: saved {en}, restored {s.enabled}")
    if bad:
        return 1, "snapshot round trip changes the timer state: " + "; ".join(bad)
    return 0, "snapshot round trip preserves the timer state natively"


handler("C13")(_snapshot)
handler("C03", "C04")(_cpu)
handler("C07")(_cpu_hist)
handler("C08")(_regs)
handler("C05")(_cpu_branch)


def main():
    prop, path = sys.argv[1], sys.argv[2]
    body = json.load(open(path))
    kind = (body.get("extra") or {}).get("replayer") or body.get("unit", {}).get("replayer")
    fn = None
    if kind:
        import importlib
        modname, fname = kind.split(":")
        fn = getattr(importlib.import_module(modname), fname)
    else:
        fn = HANDLERS.get(prop)
    if fn is None:
        print("no native replayer for", prop)
        return 4
    try:
        code, text = fn(body)
    except Exception as e:  # noqa: BLE001
        import traceback
        traceback.print_exc()
        print("replayer error:", e)
        return 3
    print(text)
    return code


if __name__ == "__main__":
    sys.exit(main())
