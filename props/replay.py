"""Native replay of a counter-model: plain CPython, real functions, no proxies, no shims.

usage: replay.py <PROP> <replay.json>
exit 1: the concrete input violates the contract on the current tree (violation confirmed)
exit 0: the concrete input satisfies the contract (the refutation did not reproduce)
exit 4: the replay file carries no concrete input
exit 3: replayer error
"""
from __future__ import annotations

import json
import os
import sys

HERE = os.path.dirname(os.path.dirname(os.path.abspath(__file__)))
sys.path.insert(0, HERE)
REPO = os.environ.get("VERIF_REPO", "/repo")
os.environ["FORCE_BINJA_MOCK"] = "1"
if REPO in sys.path:
    sys.path.remove(REPO)
sys.path.insert(0, REPO)


def _cpu(body):
    """C03/C04.  Induction units (loop rule): the counter-model is a havoced mid-loop state, not an
    instruction input; a few whole-instruction inputs derived from it are tried natively, and when
    none fails the answer is 'no failing input found' (exit 4), never 'holds'."""
    unit, model = body["unit"], body["model"]
    if not unit.get("induction") or model is None:
        return _cpu_once(body)
    j = model.get("j", 0)
    cands = []
    for n in (model.get("I", 0), j + 1, j + 2, 2, 3, 5):
        if 1 <= n <= 300 and n not in cands:
            cands.append(n)
    tried = []
    for n in cands:
        for f in dict.fromkeys((model.get("F", 0), model.get("hF", 0), model.get("F", 0) ^ 1)):
            b = dict(body, unit=dict(unit, block_n=n, induction=False), model=dict(model, F=f))
            code, text = _cpu_once(b)
            tried.append(f"I={n},F={f:#x}: {text[:80]}")
            if code == 1:
                return 1, f"(whole instruction, I={n}, F={f:#x}) " + text
    return 4, "loop-rule obligation failed; no whole-instruction input derived from the counter-model fails natively: " + " | ".join(tried[:4])


def _cpu_once(body):
    import z3
    from binja_test_mocks import binja_api  # noqa: F401
    from sc62015.pysc62015 import emulator as EMU
    from sc62015.pysc62015.instr import opcodes as OPC
    from binja_test_mocks.tokens import asm_str
    from spec import isa

    unit, model = body["unit"], body["model"]
    if model is None:
        return 4, "no model"
    cells = {int(k): v for k, v in (model.get("@cells") or {}).items()}
    addr = model.get("addr", 0x1000)
    code = ([unit["pre"]] if unit.get("pre") is not None else []) + [unit["opcode"]]
    for i, b in enumerate(code):
        cells[addr + i] = b
    mem = dict(cells)
    reads, writes = [], []

    def rd(a):
        reads.append(a)
        return mem.get(a, 0)

    def wr(a, v):
        writes.append(a)
        mem[a] = v

    emu = EMU.Emulator(EMU.Memory(rd, wr), reset_on_init=False)
    RN = EMU.RegisterName
    init = {}
    for r in ("BA", "I", "X", "Y", "U", "S", "F"):
        init[r] = model.get(r, 0)
    if unit.get("block_n") is not None:
        init["I"] = unit["block_n"]
    for r, v in init.items():
        emu.regs._values[RN[r]] = v
    for i in range(EMU.NUM_TEMP_REGISTERS):
        emu.regs._values[RN[f"TEMP{i}"]] = model.get(f"TEMP{i}", 0)
    emu.regs._values[RN.PC] = model.get("PC0", 0)
    halted0 = emu.state.halted
    try:
        ev = emu.execute_instruction(addr)
    except OPC.InvalidInstruction:
        return 0, "rejected natively"
    except Exception as e:  # noqa: BLE001
        return 1, f"native execution raised {type(e).__name__}: {e}"
    instr = ev.instruction
    if isinstance(instr, EMU._FallbackInstruction):
        return 0, "fallback natively"
    text = asm_str(instr.render())
    names = {m.name: int(m) for m in OPC.IMEMRegisters}
    arr = z3.K(z3.BitVecSort(64), z3.BitVecVal(0, 8))
    for a, v in cells.items():
        arr = z3.Store(arr, z3.BitVecVal(a, 64), z3.BitVecVal(v, 8))
    st = isa.State({k: isa.bv(v) for k, v in init.items()} | {"PC": isa.bv(0)}, arr)
    try:
        isa.execute(text, {}, names, st, isa.bv(addr), instr.length(), block_limit=unit.get("block_n"))
    except isa.NotSpecified as e:
        return 0, f"not specified: {e}"
    S = z3.simplify
    if st.defined and not z3.is_true(S(z3.And(st.defined))):
        return 0, f"input outside the documented domain: {text}"
    problems = []
    free = st.free
    fmask = 0xFF
    if "C" in free:
        fmask &= ~1
    if "Z" in free:
        fmask &= ~2
    if "Fhi" in free:
        fmask &= 3
    for r in ("BA", "I", "X", "Y", "U", "S", "PC"):
        want = S(st.r[r]).as_long()
        got = emu.regs.get(RN[r])
        if want != got:
            problems.append(f"{r}: documented {want:#x}, executed {got:#x}")
    want, got = S(st.r["F"]).as_long(), emu.regs.get(RN.F)
    if (want & fmask) != (got & fmask):
        problems.append(f"F: documented {want:#x}, executed {got:#x} (mask {fmask:#x})")
    # memory: every cell either side wrote
    spec_addrs = set()
    cur = st.mem
    while z3.is_store(cur):
        a, i, v = cur.children()
        iv = S(i)
        if z3.is_bv_value(iv):
            spec_addrs.add(iv.as_long())
        cur = a
    mfree = {}
    for f in free:
        if isinstance(f, tuple) and f[0] == "membits":
            mfree[S(isa.bv(f[1])).as_long()] = f[2]
    for a in sorted(spec_addrs | set(writes)):
        want = S(z3.Select(st.mem, z3.BitVecVal(a, 64))).as_long()
        got = mem.get(a, 0)
        m = 0xFF & ~mfree.get(a, 0)
        if (want & m) != (got & m):
            problems.append(f"mem[{a:#x}]: documented {want:#x}, executed {got:#x}")
    if st.halted is not None and bool(emu.state.halted) != st.halted:
        problems.append("halted state")
    if st.halted is None and emu.state.halted != halted0:
        problems.append("halted state changed")
    allowed = {addr + k for k in range(instr.length())} | {S(x).as_long() for x, _ in st.reads}
    extra = sorted(set(reads) - allowed)
    if extra:
        problems.append("reads outside the denoted locations: " + ", ".join(hex(a) for a in extra[:8]))
    if problems:
        return 1, f"{text}: " + "; ".join(problems)
    return 0, f"{text}: contract holds natively"


def _regs(body):
    """C08 set/get contracts replayed on plain ints."""
    from binja_test_mocks import binja_api  # noqa: F401
    from sc62015.pysc62015 import emulator as EMU
    import z3
    from spec import regfile as RF
    unit, model = body["unit"], body["model"]
    if model is None or "reg" not in unit:
        return 4, "no concrete input for this obligation"
    regs = EMU.Registers()
    view = {}
    for b in RF.BASE_MASK:
        regs._values[EMU.RegisterName[b]] = model.get(b, 0)
        view[b] = RF.bv(model.get(b, 0))
    v = model.get("v", 0)
    if v >= 1 << 63:
        v -= 1 << 64
    r = unit["reg"]
    api = unit.get("api", "enum")
    if api == "enum":
        regs.set(EMU.RegisterName[r], v)
    elif api == "name":
        regs.set_by_name(r, v)
    else:
        regs.set_flag({"FC": "C", "FZ": "Z"}[r], v)
    want = RF.set_(view, r, RF.bv(v & ((1 << 64) - 1)))
    bad = []
    for b in RF.BASE_MASK:
        w = z3.simplify(want[b]).as_long()
        g = regs._values[EMU.RegisterName[b]]
        if w != g:
            bad.append(f"{b}: spec {w:#x}, stored {g:#x}")
    for q in RF.ALL:
        w = z3.simplify(RF.get(want, q)).as_long()
        g = regs.get(EMU.RegisterName[q])
        if w != g:
            bad.append(f"get({q}): spec {w:#x}, got {g:#x}")
    if bad:
        return 1, f"set({r}, {v:#x}) via {api}: " + "; ".join(bad[:6])
    return 0, "register contract holds natively"


def _cpu_branch(body):
    """C05: branch facts from the real analyze() vs the PC the real execution reaches."""
    name = body.get("obligation") or ""
    if name.startswith("reg:") or name in ("mem", "reads", "halted"):
        return _cpu(body)
    from binja_test_mocks import binja_api  # noqa: F401
    from binaryninja.enums import BranchType as BT
    from sc62015.pysc62015 import emulator as EMU
    from binja_test_mocks.tokens import asm_str
    import re
    unit, model = body["unit"], body["model"]
    if model is None:
        return 4, "no model"
    cells = {int(k): v for k, v in (model.get("@cells") or {}).items()}
    addr = model.get("addr", 0x1000)
    code = ([unit["pre"]] if unit.get("pre") is not None else []) + [unit["opcode"]]
    for i, b in enumerate(code):
        cells[addr + i] = b
    mem = dict(cells)
    emu = EMU.Emulator(EMU.Memory(lambda a: mem.get(a, 0), lambda a, v: mem.__setitem__(a, v)), reset_on_init=False)
    RN = EMU.RegisterName
    for r in ("BA", "I", "X", "Y", "U", "S", "F"):
        emu.regs._values[RN[r]] = model.get(r, 0)
    if unit.get("block_n") is not None:
        emu.regs._values[RN.I] = unit["block_n"]
    f0 = model.get("F", 0)
    ev = emu.execute_instruction(addr)
    instr, info = ev.instruction, ev.instruction_info
    text = asm_str(instr.render())
    pc = emu.regs.get(RN.PC)
    nxt = (addr + instr.length()) & 0xFFFFF
    mn = text.split()[0]
    m = re.fullmatch(r"(JP|JR)(Z|NZ|C|NC)", mn)
    taken = None
    if m:
        taken = {"Z": bool(f0 & 2), "NZ": not (f0 & 2), "C": bool(f0 & 1), "NC": not (f0 & 1)}[m.group(2)]
    br = [(b.type, b.target) for b in info.branches]
    probs = []
    # the facts Binary Ninja is handed come from the architecture callback: same kinds, same targets mod 2^20
    from sc62015.arch import SC62015
    data = bytes(cells.get(addr + i, 0) & 0xFF for i in range(instr.length() + 2))
    hinfo = SC62015().get_instruction_info(data, addr)
    if hinfo is None:
        probs.append("get_instruction_info rejects an instruction the emulator executes")
    else:
        hbr = [(b.type, b.target) for b in hinfo.branches]
        if [k for k, _ in hbr] != [k for k, _ in br]:
            probs.append(f"callback reports {[k.name for k, _ in hbr]}, analyze() {[k.name for k, _ in br]}")
        else:
            for (k, th), (_k, ta) in zip(hbr, br):
                if (th is None) != (ta is None) or (th is not None and (th & 0xFFFFF) != (ta & 0xFFFFF)):
                    probs.append(f"callback {k.name} target {th if th is None else hex(th)} vs analyze() {ta if ta is None else hex(ta)} (mod 2^20)")
    if info.length != instr.length():
        probs.append(f"info.length {info.length} != {instr.length()}")
    if not br and pc != nxt and mn != "IR":
        probs.append(f"no branch reported but PC={pc:#x} != next {nxt:#x}")
    for t, tgt in br:
        if t in (BT.UnconditionalBranch, BT.CallDestination) and (tgt & 0xFFFFF) != pc:
            probs.append(f"{t.name} target {tgt:#x} but PC={pc:#x}")
        if t == BT.TrueBranch and taken and (tgt & 0xFFFFF) != pc:
            probs.append(f"TrueBranch target {tgt:#x} but taken PC={pc:#x}")
        if t == BT.FalseBranch and taken is False and (tgt & 0xFFFFF) != pc:
            probs.append(f"FalseBranch target {tgt:#x} but not-taken PC={pc:#x}")
        if t == BT.FalseBranch and (tgt & 0xFFFFF) != nxt:
            probs.append(f"FalseBranch target {tgt:#x} is not address+length {nxt:#x}")
    if probs:
        return 1, f"{text} @ {addr:#x}: " + "; ".join(probs)
    return 0, f"{text} @ {addr:#x}: branch facts agree with execution natively"


def _cpu_hist(body):
    """C07: the two runs of the history harness replayed natively: fresh emulator vs emulator that
    first executed the history instruction, same architectural inputs, TEMP registers from the model."""
    from binja_test_mocks import binja_api  # noqa: F401
    from sc62015.pysc62015 import emulator as EMU
    from contracts import cpu as CPU
    unit, model = body["unit"], body["model"]
    if model is None or "hist" not in unit:
        return 4, "no concrete input"
    RN = EMU.RegisterName
    addr = 0x1000
    cells = {int(k): v for k, v in (model.get("@cells") or {}).items()}
    code = ([unit["pre"]] if unit.get("pre") is not None else []) + [unit["opcode"]]
    for i, b in enumerate(code):
        cells[addr + i] = b
    regs = {r: model.get(r, 0) for r in ("BA", "I", "X", "Y", "U", "S", "F")}
    if unit.get("block_n") is not None:
        regs["I"] = unit["block_n"]

    hist = CPU.HISTORY[unit["hist"]]
    keep_halted = len(hist) > 3 and hist[3] == "keep-halted"

    def load(e, tag):
        for r, v in regs.items():
            e.regs.set(RN[r], v)
        e.regs.set(RN.PC, model.get("PC0", 0))
        for i in range(EMU.NUM_TEMP_REGISTERS):
            e.regs._values[RN[f"TEMP{i}"]] = model.get(f"{tag}TEMP{i}", 0)
        if not (keep_halted and tag == "b"):
            e.state.halted = False

    def run(e):
        try:
            ev = e.execute_instruction(addr)
            return ("ok", ev.instruction.name(), ev.instruction.length())
        except Exception as ex:  # noqa: BLE001
            return ("exception", type(ex).__name__)

    ma = dict(cells)
    ea = EMU.Emulator(EMU.Memory(lambda a: ma.get(a, 0), lambda a, v: ma.__setitem__(a, v & 0xFF)), reset_on_init=False)
    load(ea, "a")
    ra = run(ea)
    desc, hbytes, haddr = hist[:3]
    haddr = addr if haddr is None else haddr
    hb = hbytes if hbytes is not None else code + [0] * 6
    hm = {}
    for i in range(16):
        hm[haddr + i] = hb[i] if i < len(hb) else 0
    cur = {"m": hm, "default": 0x11}
    eb = EMU.Emulator(EMU.Memory(lambda a: cur["m"].get(a, cur["default"]), lambda a, v: cur["m"].__setitem__(a, v & 0xFF)), reset_on_init=False)
    for r, v in (("BA", 0x1234), ("I", 2), ("X", 0x20010), ("Y", 0x20020), ("U", 0x30000), ("S", 0x40000), ("F", 1)):
        eb.regs.set(RN[r], v)
    try:
        eb.execute_instruction(haddr)
    except Exception:  # noqa: BLE001
        pass
    mb = dict(cells)
    cur["m"], cur["default"] = mb, 0
    load(eb, "b")
    if len(hist) > 3 and hist[3] == "tracer":
        eb.memory._perf_tracer = CPU._NullTracer()
    rb = run(eb)
    probs = []
    if ra != rb:
        probs.append(f"outcome {ra} vs {rb}")
    for r in ("BA", "I", "X", "Y", "U", "S", "F", "PC"):
        if ea.regs.get(RN[r]) != eb.regs.get(RN[r]):
            probs.append(f"{r}: fresh {ea.regs.get(RN[r]):#x}, after history {eb.regs.get(RN[r]):#x}")
    if {a: v for a, v in ma.items() if v} != {a: v for a, v in mb.items() if v}:
        probs.append("memory images differ")
    if ea.state.halted != eb.state.halted and (not keep_halted or ea.state.halted):
        probs.append("halted differs")
    if probs:
        return 1, f"opcode {unit['opcode']:#x} after history '{desc}': " + "; ".join(probs)
    return 0, "both runs agree natively"


HANDLERS = {}


def handler(*props):
    def deco(fn):
        for p in props:
            HANDLERS[p] = fn
        return fn
    return deco


def _snapshot(body):
    """C13 snapshot restore point, natively: real save_snapshot / load_snapshot through a real file."""
    unit, model = body["unit"], body["model"]
    if model is None or unit.get("kind") != "snapshot-restore":
        return 4, "no native replayer for this obligation"
    import os
    import tempfile
    from binja_test_mocks import binja_api  # noqa: F401
    import pce500.emulator as PE

    def sgn(v):
        return v

    a = PE.PCE500Emulator(save_lcd_on_exit=False)
    vals = {k: int(model.get(k, 0)) for k in ("mp", "sp", "nm", "ns", "cyc")}
    en = bool(model.get("enabled", True))
    a._scheduler.mti_period, a._scheduler.sti_period = vals["mp"], vals["sp"]
    a._scheduler._next_mti, a._scheduler._next_sti = vals["nm"], vals["ns"]
    a._scheduler.enabled = en
    a._timer_enabled = en
    a.cycle_count = vals["cyc"]
    a._in_interrupt = bool(unit.get("in_interrupt", False))
    with tempfile.TemporaryDirectory(prefix="symx_snap_") as tmp:
        p = os.path.join(tmp, "s.pcsnap")
        a.save_snapshot(p)
        b = PE.PCE500Emulator(save_lcd_on_exit=False)
        b.load_snapshot(p)
    s = b._scheduler
    got = dict(mp=s.mti_period, sp=s.sti_period, nm=s.next_mti, ns=s.next_sti, cyc=b.cycle_count)
    bad = [f"{k}: saved {vals[k]}, restored {got[k]}" for k in vals if vals[k] != got[k]]
    if bool(s.enabled) != en:
        bad.append(f"enabled: saved {en}, restored {s.enabled}")
    if bad:
        return 1, "snapshot round trip changes the timer state: " + "; ".join(bad)
    return 0, "snapshot round trip preserves the timer state natively"


def _codec(body):
    """C01 / C02 natively: plain bytes through the real decode(), the three architecture hooks, the
    emulator fetch path and encode(); the obligations of contracts/codec.py re-evaluated on the
    concrete results (same names)."""
    from binja_test_mocks import binja_api  # noqa: F401
    from sc62015 import arch as ARCH
    from sc62015.pysc62015 import emulator as EMU
    from sc62015.pysc62015.instr import opcodes as OPC
    from sc62015.pysc62015.instr.opcode_table import OPCODES
    from binja_test_mocks.tokens import asm_str
    from binja_test_mocks.mock_llil import MockLowLevelILFunction as ILF
    from contracts import codec as CD
    unit, model = body["unit"], body["model"]
    if model is None:
        return 4, "no model"
    L, want = unit["L"], unit.get("want", "C01")
    lead = ([unit["b0"]] + ([unit["b1"]] if unit.get("b1") is not None else []))[:L]
    data = bytes(lead + [int(model.get(f"b{i}", 0)) & 0xFF for i in range(len(lead), L)])
    addr = int(model.get("addr", 0))
    tpl0 = CD._snapshot_templates(OPCODES)
    arch = ARCH.SC62015()
    res = {}

    def P(name, ok, detail=""):
        res.setdefault(name, (bool(ok), detail))
        if not ok:
            res[name] = (False, detail)

    def hook(fn):
        try:
            return "ok", fn()
        except BaseException as e:  # noqa: BLE001
            return "raised", e

    outcome, instr = "ok", None
    try:
        instr = OPC.decode(data, addr, OPCODES)
        if instr is None:
            outcome = "reject"
    except AssertionError:
        outcome = "assert"
    except OPC.InvalidInstruction:
        outcome = "invalid"
    except BaseException as e:  # noqa: BLE001
        outcome = "crash"
        P("decode:no-unexpected-error", False, f"{type(e).__name__}: {e}")
    if outcome == "ok":
        n = instr.length()
        P("decode:length>=1", n >= 1)
        P("decode:length<=supplied", n <= L, f"length {n} of {L} bytes")
    s_info, info = hook(lambda: arch.get_instruction_info(data, addr))
    s_text, text = hook(lambda: arch.get_instruction_text(data, addr))
    il = ILF()
    s_il, il_len = hook(lambda: arch.get_instruction_low_level_il(data, addr, il))
    for nm, st, val in (("info", s_info, info), ("text", s_text, text), ("llil", s_il, il_len)):
        P(f"hook:{nm}:no-exception", st == "ok", repr(val))
    accepted = s_info == "ok" and info is not None
    if accepted:
        P("hooks:info-accepts=>decoder-accepts", outcome == "ok")
        if outcome == "ok":
            P("hooks:info-length=decoder-length", info.length == instr.length())
        P("hooks:info-accepts=>text-accepts", s_text == "ok" and text is not None, f"info length {info.length}, text {text!r}")
        P("hooks:info-accepts=>llil-accepts", s_il == "ok" and il_len is not None, f"info length {info.length}, llil {il_len!r}")
        if s_text == "ok" and text is not None:
            toks, tlen = text
            P("hooks:text-length=info-length", tlen == info.length)
            if outcome == "ok":
                P("hooks:text-mnemonic", len(toks) > 0 and toks[0].text == instr.name())
        if s_il == "ok" and il_len is not None:
            P("hooks:llil-length=info-length", il_len == info.length)
    if L == CD.FULL:
        mem = {0x1000 + i: x for i, x in enumerate(data)}
        emu = EMU.Emulator(EMU.Memory(lambda a: mem.get(a, 0), lambda a, v: mem.__setitem__(a, v)), reset_on_init=False)
        s_f, fi = hook(lambda: emu.decode_instruction(0x1000))
        P("fetch:no-exception", s_f == "ok", repr(fi))
        if s_f == "ok":
            if accepted and outcome == "ok":
                P("fetch:same-name-and-length", fi.name() == instr.name() and fi.length() == instr.length(), f"{fi.name()}/{fi.length()} vs {instr.name()}/{instr.length()}")
            if outcome in ("reject", "assert", "invalid"):
                P("fetch:placeholder-when-rejected", fi.name() == f"UNK_{lead[0]:02X}" and fi.length() == 1, f"{fi.name()}/{fi.length()}")
        mem2 = {0x1000 + k: x for k, x in enumerate((0x08, 0x55, 0x00, 0x00, 0x00, 0x00, 0x00, 0x00, 0x00, 0x00))}
        emu2 = EMU.Emulator(EMU.Memory(lambda a: mem2.get(a, 0), lambda a, v: mem2.__setitem__(a, v)), reset_on_init=False)
        for at in (0x1000, 0x1001, 0x1002):
            hook(lambda: emu2.decode_instruction(at))
        for i, x in enumerate(data):
            mem2[0x1000 + i] = x
        s_h, hi = hook(lambda: emu2.decode_instruction(0x1000))
        if s_f == "ok":
            P("fetch:after-history", s_h == "ok" and hi.name() == fi.name() and hi.length() == fi.length(),
              f"an Emulator that decoded 'MV A,55; NOP' before decodes {data.hex()} as {hi.name() + '/' + str(hi.length()) if s_h == 'ok' else repr(hi)}, a fresh one as {fi.name()}/{fi.length()}")
        if s_f == "ok":
            bases = [("any", int(model.get("fetch_base", 0x2000)) & 0xFFFFF), ("last-byte", 0xFFFFF)]
            if accepted and outcome == "ok":
                bases.insert(1, ("top-aligned", 0x100000 - instr.length()))
            for btag, fb in bases:
                mem3 = {fb + i: x for i, x in enumerate(data)}
                emu3 = EMU.Emulator(EMU.Memory(lambda a: mem3.get(a, 0), lambda a, v: mem3.__setitem__(a, v)), reset_on_init=False)
                s_a, ai = hook(lambda: emu3.decode_instruction(fb))
                P(f"fetch:{btag}-address:no-exception", s_a == "ok", repr(ai))
                if s_a == "ok":
                    P(f"fetch:{btag}-address:same-name-and-length", ai.name() == fi.name() and ai.length() == fi.length(),
                      f"fetch at {fb:#07x} gives {ai.name()}/{ai.length()}, at 0x1000 {fi.name()}/{fi.length()}")
        if want == "C01":
            for cut in range(0, CD.FULL):
                s_c, ic = hook(lambda: arch.get_instruction_info(data[:cut], addr))
                P(f"truncated:{cut}:no-exception", s_c == "ok", repr(ic))
                if s_c != "ok":
                    continue
                if accepted and outcome == "ok":
                    n = instr.length()
                    if cut >= n:
                        P(f"truncated:{cut}:same-result", ic is not None and ic.length == n)
                    else:
                        P(f"truncated:{cut}:rejected", ic is None)
                elif ic is not None:
                    P(f"truncated:{cut}:length-fits", ic.length <= cut)
    P("templates-unchanged", CD._snapshot_templates(OPCODES) == tpl0, "OPCODES operand templates mutated by decoding these bytes")
    if want == "C02" and outcome == "ok" and accepted:
        n = instr.length()
        s_e, enc = hook(lambda: OPC.encode(instr, addr))
        P("encode:no-exception", s_e == "ok", repr(enc))
        if s_e == "ok":
            P("encode:length", len(enc) == n, f"{len(enc)} vs {n}")
            if len(enc) == n:
                for i in range(n):
                    P(f"encode:byte{i}", enc[i] == data[i], f"encode gives {enc[i]:#04x}, decoded byte was {data[i]:#04x}")
                s_r, re_i = hook(lambda: OPC.decode(bytes(enc), addr, OPCODES))
                P("redecode:accepted", s_r == "ok" and re_i is not None)
                if s_r == "ok" and re_i is not None:
                    P("redecode:length", re_i.length() == n)
                    t1, t2 = asm_str(instr.render()), asm_str(re_i.render())
                    P("redecode:same-text", t1 == t2, f"{t1} vs {t2}")
                    il1, il2 = ILF(), ILF()
                    s1, _ = hook(lambda: instr.lift(il1, addr))
                    s2, _ = hook(lambda: re_i.lift(il2, addr))
                    P("redecode:same-il", s1 == s2 and repr(CD._il_plain(il1.ils)) == repr(CD._il_plain(il2.ils)))
    bad = {k: d for k, (ok, d) in res.items() if not ok}
    name = body.get("obligation")
    hexs = data.hex()
    if name in bad:
        return 1, f"bytes {hexs} at {addr:#x}: {name} fails natively ({bad[name]})"
    if bad:
        k = sorted(bad)[0]
        return 1, f"bytes {hexs} at {addr:#x}: {k} fails natively ({bad[k]}); {name} itself holds for this input"
    if name not in res:
        return 4, f"bytes {hexs}: obligation {name} has no native counterpart on this path"
    return 0, f"bytes {hexs} at {addr:#x}: all {len(res)} obligations hold natively"


def _mem(body):
    """C11 natively: the law sequence on a real PCE500Memory built like the contract's configuration;
    memory contents are a fixed pattern (the solver's array model is not carried over), so a run that
    does not fail is reported as 'no failing input', not as 'holds'."""
    import z3
    from binja_test_mocks import binja_api  # noqa: F401
    import pce500.memory as PM
    from contracts import membus as MB
    unit, model = body["unit"], body["model"]
    if model is None or unit.get("kind") == "rust-standin":
        return 4, "no model"
    cfg = dict(MB.CONFIGS[unit["config"]])
    pat = lambda k, n: bytearray(((i * 7 + k) & 0xFF) for i in range(n))
    mem = PM.PCE500Memory()
    mem.external_memory[:] = pat(3, len(mem.external_memory))
    mem._card_data[:] = pat(5, len(mem._card_data))
    if "card_present" in cfg:
        mem._card_present = cfg["card_present"]
    if "card_writable" in cfg:
        mem._card_writable = cfg["card_writable"]
    if cfg.get("rom"):
        mem.load_rom(bytes(pat(9, cfg["rom"])))
    for key in ("ram", "romov"):
        if cfg.get(key) and cfg[key][0] == "sym":
            cfg[key] = (int(model.get(f"{key}_start", 0)), cfg[key][1])
    if cfg.get("ram"):
        mem.add_ram(cfg["ram"][0], cfg["ram"][1], "extra_ram")
    if cfg.get("romov"):
        mem.add_rom(cfg["romov"][0], bytes(pat(11, cfg["romov"][1])), "extra_rom")
    bv = lambda x: z3.BitVecVal(x, 64)
    S = lambda t: z3.simplify(t)
    a = int(model.get("a", 0))
    name = body.get("obligation", "")
    res = {}
    if "size" in unit:
        size = unit["size"]
        val = int(model.get("val", 0x112233)) & ((1 << (8 * size)) - 1)
        want = 0
        for i in range(size):
            want |= mem.read_byte(a + i) << (8 * i)
        res[f"le:read_bytes{size}"] = (mem.read_bytes(a, size) == want, f"read_bytes({a:#x},{size}) vs composed {want:#x}")
        if size == 2:
            res["le:read_word"] = (mem.read_word(a) == want, "")
        if size == 3:
            res["le:read_long"] = (mem.read_long(a) == want, "")
        import copy
        m2 = copy.deepcopy(mem)
        if size == 2 and unit.get("api") == "word":
            mem.write_word(a, val)
        elif size == 3 and unit.get("api") == "long":
            mem.write_long(a, val)
        else:
            mem.write_bytes(size, a, val)
        for i in range(size):
            m2.write_byte(a + i, (val >> (8 * i)) & 0xFF)
        same = bytes(mem.external_memory) == bytes(m2.external_memory) and bytes(mem._card_data) == bytes(m2._card_data)
        for o1, o2 in zip(mem._bus._overlays, m2._bus._overlays):
            if isinstance(o1.data, (bytes, bytearray)):
                same = same and bytes(o1.data) == bytes(o2.data)
        for k in ("external_memory", "_card_data", "extra_ram", "extra_rom"):
            res[f"le:store{size}:{k}"] = (same, f"store of {val:#x} at {a:#x}: images differ from {size} byte stores")
    else:
        b, v = int(model.get("b", 0)), int(model.get("v", 0)) & 0xFF
        for vv in (v, v ^ 0xFF, (v + 1) & 0xFF):
            import copy
            m = copy.deepcopy(mem)
            r0, ra0 = m.read_byte(b), m.read_byte(a)
            m.write_byte(a, vv)
            r1, r2 = m.read_byte(a), m.read_byte(b)
            ca, cb = S(MB.canon(bv(a))), S(MB.canon(bv(b)))
            wr = z3.is_true(S(MB.writable(cfg, MB.canon(bv(a)))))
            same = ca.eq(cb)
            alias = z3.is_true(S(MB.alias_witness(bv(a), bv(b))))
            cand = {
                "rw:read-back": (not wr or r1 == vv, f"write {vv:#x} at {a:#x}, read back {r1:#x}"),
                "ro:write-ignored": (wr or r1 == ra0, f"read-only {a:#x}: {ra0:#x} -> {r1:#x} after writing {vv:#x}"),
                "frame:other-locations": (same or r2 == r0 or alias, f"write at {a:#x} changed {b:#x}: {r0:#x} -> {r2:#x}"),
                "frame:ro-write-changes-nothing": (wr or r2 == r0, f"write to read-only {a:#x} changed {b:#x}"),
                "canon:same-location-same-value": (not same or r2 == r1, f"aliases {a:#x}/{b:#x} read {r1:#x}/{r2:#x}"),
            }
            for k, (ok, d) in cand.items():
                if k not in res or not ok:
                    res[k] = (ok, d)
    bad = {k: d for k, (ok, d) in res.items() if not ok}
    base = name.split("@")[0]
    if base in bad:
        return 1, f"config {unit['config']}: {base} fails natively: {bad[base]}"
    if bad:
        k = sorted(bad)[0]
        return 1, f"config {unit['config']}: {k} fails natively: {bad[k]}"
    return 4, f"config {unit['config']}: the law sequence holds natively for a={a:#x} with pattern memory (array contents of the counter-model are not replayed)"


def _irq(body):
    """C12 natively: one real PCE500Emulator.step with the counter-model's IMR/ISR/pending/F/S."""
    from binja_test_mocks import binja_api  # noqa: F401
    import pce500.emulator as PE
    from sc62015.pysc62015.emulator import RegisterName as RN
    unit, model = body["unit"], body["model"]
    if model is None or unit.get("kind") == "rust-standin" or unit.get("fn") not in ("unit_gate", "unit_halt"):
        return 4, "no native replayer for this obligation"
    halted = unit.get("fn") == "unit_halt"
    in_irq = bool(unit.get("in_interrupt", False))
    imr, isr = int(model.get("IMR", 0)) & 0xFF, int(model.get("ISR", 0)) & 0xFF
    S, F = int(model.get("S", 0xB9800)), int(model.get("F", 0)) & 0xFF
    pend = bool(model.get("pending", False))
    VEC = 0x02345
    emu = PE.PCE500Emulator(save_lcd_on_exit=False)
    rom = bytearray(0x40000)
    rom[0x3FFFA:0x3FFFD] = bytes([VEC & 0xFF, (VEC >> 8) & 0xFF, (VEC >> 16) & 0xFF])
    emu.load_rom(bytes(rom))
    emu.memory.write_byte(0x100000 + 0xFB, imr)
    emu.memory.write_byte(0x100000 + 0xFC, isr)
    for k in range(1, 6):
        emu.memory.write_byte(S - k, 0xEE)
    emu.cpu.regs.set(RN.PC, 0x1000)
    emu.cpu.regs.set(RN.S, S)
    emu.cpu.regs.set(RN.F, F)
    emu._irq_pending, emu._in_interrupt, emu._key_irq_latched, emu._timer_enabled = pend, in_irq, False, False
    emu.cpu.state.halted = halted
    seen = []

    class Info:
        class instruction:
            length = staticmethod(lambda: 1)
            render = staticmethod(lambda: [])
            name = staticmethod(lambda: "NOP")

    def stub(pc):
        seen.append(dict(pc=pc, s=emu.cpu.regs.get(RN.S), frame=[emu.memory.read_byte(S - k) for k in range(1, 6)],
                         imr=emu.memory.read_byte(0x100000 + 0xFB)))
        return Info()
    emu.cpu.execute_instruction = stub
    emu.cpu.decode_instruction = lambda pc: Info.instruction
    emu.step()
    res = {}
    if halted:
        woke = not emu.cpu.state.halted
        res["halt:wakes-iff-status-pending"] = (woke == (isr != 0), f"ISR={isr:#x}: halted after the step = {not woke}")
        if not woke:
            res["halt:executes-nothing"] = (len(seen) == 0, "")
    else:
        at = seen[0] if seen else dict(pc=emu.cpu.regs.get(RN.PC), s=emu.cpu.regs.get(RN.S), frame=[emu.memory.read_byte(S - k) for k in range(1, 6)], imr=emu.memory.read_byte(0x100000 + 0xFB))
        delivered = at["s"] == S - 5
        gate = pend and not in_irq and (imr & 0x80) != 0 and (imr & isr & 0x7F) != 0
        ctx = f"IMR={imr:#04x} ISR={isr:#04x} pending={pend} F={F:#x} S={S:#x}"
        res["gate:delivered=>enabled-and-pending"] = (not delivered or gate, f"{ctx}: interrupt taken")
        res["gate:enabled-and-pending=>delivered"] = (not gate or delivered, f"{ctx}: deliverable request not taken at this step boundary")
        res["gate:either-5-bytes-or-nothing"] = (delivered or at["s"] == S, f"{ctx}: S -> {at['s']:#x}")
        if delivered:
            fr = at["frame"]      # S-1 .. S-5
            res["deliver:frame-is-PC-F-IMR"] = (fr == [0x00, 0x10, 0x00, F, imr], f"{ctx}: frame (S-1..S-5) = {[hex(x) for x in fr]}")
            res["deliver:clears-master-enable"] = (at["imr"] == (imr & 0x7F), f"{ctx}: IMR at the handler = {at['imr']:#x}")
            res["deliver:continues-at-vector"] = (at["pc"] == VEC, f"{ctx}: PC = {at['pc']:#x}")
            res["deliver:pending-cleared"] = (not emu._irq_pending, ctx)
        else:
            res["no-delivery:nothing-written"] = (at["frame"] == [0xEE] * 5 and at["imr"] == imr, f"{ctx}: stack/IMR changed")
            res["no-delivery:pc-unchanged"] = (at["pc"] == 0x1000, f"{ctx}: PC = {at['pc']:#x}")
            res["no-delivery:pending-kept"] = (not pend or bool(emu._irq_pending), f"{ctx}: pending request dropped")
        res["executes-exactly-one-instruction"] = (len(seen) == 1, f"{len(seen)} instructions")
    bad = {k: d for k, (ok, d) in res.items() if not ok}
    base = body.get("obligation", "").split("@")[0]
    if base in bad:
        return 1, f"{base} fails natively: {bad[base]}"
    if bad:
        k = sorted(bad)[0]
        return 1, f"{k} fails natively: {bad[k]}"
    return (0 if base in res else 4), "the step obligations hold natively for this input"


def _sched(body):
    """C13 natively: TimerScheduler.advance on plain ints vs. the closed form of its contract;
    snapshot restore point through a real file."""
    unit, model = body["unit"], body["model"]
    if unit.get("kind") == "snapshot-restore":
        return _snapshot(body)
    if model is None or "enabled" not in unit or unit.get("kind") not in (None,):
        return 4, "no native replayer for this obligation"
    from binja_test_mocks import binja_api  # noqa: F401
    import pce500.scheduler as SCH
    mp, sp, nm, ns, cyc = (int(model.get(k, 0)) for k in ("mti_period", "sti_period", "next_mti", "next_sti", "cycle"))
    en = bool(unit["enabled"])
    sch = SCH.TimerScheduler.__new__(SCH.TimerScheduler)
    sch.mti_period, sch.sti_period, sch.enabled = mp, sp, en
    sch._next_mti, sch._next_sti = nm, ns
    try:
        fired = list(sch.advance(cyc))
    except BaseException as e:  # noqa: BLE001
        return 1, f"advance({cyc}) raised {type(e).__name__}: {e}"

    def law(per, nxt):
        f = en and per > 0 and cyc >= nxt
        return f, (nxt + ((cyc - nxt) // per + 1) * per if f else nxt)
    wm, wnm = law(mp, nm)
    ws, wns = law(sp, ns)
    gm = any(getattr(x, "name", str(x)).endswith("MTI") for x in fired)
    gs = any(getattr(x, "name", str(x)).endswith("STI") for x in fired)
    bad = []
    if (gm, gs) != (wm, ws):
        bad.append(f"fired (mti={gm}, sti={gs}), contract (mti={wm}, sti={ws})")
    if sch._next_mti != wnm or sch._next_sti != wns:
        bad.append(f"targets ({sch._next_mti}, {sch._next_sti}), contract ({wnm}, {wns})")
    ctx = f"periods {mp}/{sp}, targets {nm}/{ns}, enabled={en}, advance({cyc})"
    if bad:
        return 1, f"{ctx}: " + "; ".join(bad)
    return 0, f"{ctx}: contract holds natively"


handler("C13")(_sched)
handler("C01", "C02")(_codec)
handler("C11")(_mem)
handler("C12")(_irq)
handler("C03", "C04")(_cpu)
handler("C07")(_cpu_hist)
handler("C08")(_regs)
handler("C05")(_cpu_branch)


def _generic(body):
    """Replay for contracts without a hand-written replayer: the unit's own contract function is run
    again with every named input fixed to the counter-model's value, so the real functions execute
    on plain Python ints/bools; first without any instrumentation of the repository modules (no
    shims, no source passes on the third-party evaluator), and only if a container proxy reaches an
    uninstrumented operation a second time with the shims.  Array contents (memory images, VRAM)
    stay universally quantified.  A run in which nothing fails is reported as 'no failing input'."""
    import importlib
    import tempfile
    fn_path, model, unit = body.get("fn_path"), body.get("model"), body.get("unit")
    if not fn_path or model is None:
        return 4, "no contract function / model recorded"
    scal = {k: v for k, v in model.items() if not k.startswith("@") and isinstance(v, (int, bool))}
    f = tempfile.NamedTemporaryFile("w", suffix=".json", delete=False)
    json.dump(scal, f)
    f.close()
    os.environ["SYMX_FIX_INPUTS"] = f.name
    modname, fname = fn_path.split(":")
    want = (body.get("obligation") or "").split("@")[0]
    notes = []
    try:
        for noshims in ("1", "0"):
            os.environ["SYMX_NO_SHIMS"] = noshims
            for name in list(sys.modules):
                if name.split(".")[0] in ("sc62015", "pce500", "binja_test_mocks", "binaryninja", "contracts", "symx", "spec"):
                    del sys.modules[name]
            try:
                fn = getattr(importlib.import_module(modname), fname)
                rep = fn(dict(unit, known=[]))
            except BaseException as e:  # noqa: BLE001
                notes.append(f"{'plain' if noshims == '1' else 'shimmed'} run: {type(e).__name__}: {str(e)[:120]}")
                continue
            if rep.get("status") not in ("ok",) and not rep.get("failed"):
                notes.append(f"{'plain' if noshims == '1' else 'shimmed'} run: {rep.get('status')}: {str(rep.get('error'))[:160]}")
                continue
            mode = "plain CPython, no instrumentation" if noshims == "1" else "under the engine's shims"
            bad = [o for o in rep.get("failed", []) if o["name"].split("@")[0] == want] or rep.get("failed", [])
            if bad:
                return 1, f"inputs {scal}: {bad[0]['name']} fails when the real functions run on them ({mode}): {str(bad[0].get('detail'))[:300]}"
            notes.append(f"{mode}: all {rep.get('obligations')} obligations hold for these inputs")
            break
    finally:
        os.unlink(f.name)
        os.environ.pop("SYMX_FIX_INPUTS", None)
        os.environ.pop("SYMX_NO_SHIMS", None)
    return 4, "no failing input found by fixing the counter-model's inputs: " + "; ".join(notes)


def main():
    prop, path = sys.argv[1], sys.argv[2]
    body = json.load(open(path))
    kind = (body.get("extra") or {}).get("replayer") or body.get("unit", {}).get("replayer")
    fn = None
    if kind:
        import importlib
        modname, fname = kind.split(":")
        fn = getattr(importlib.import_module(modname), fname)
    else:
        fn = HANDLERS.get(prop)
    try:
        code, text = fn(body) if fn is not None else (4, f"no hand-written replayer for {prop}")
        if code == 4:
            code2, text2 = _generic(body)
            if code2 == 1:
                code, text = code2, text2
            else:
                text = text + " | " + text2
    except Exception as e:  # noqa: BLE001
        import traceback
        traceback.print_exc()
        print("replayer error:", e)
        return 3
    print(text)
    return code


if __name__ == "__main__":
    sys.exit(main())
