"""Native replay of a counter-model: plain CPython, real functions, no proxies, no shims.

usage: replay.py <PROP> <replay.json>
exit 1: the concrete input violates the contract on the current tree (violation confirmed)
exit 0: the concrete input satisfies the contract (the refutation did not reproduce)
exit 4: the replay file carries no concrete input
exit 3: replayer error
"""
from __future__ import annotations

import json
import os
import sys

HERE = os.path.dirname(os.path.dirname(os.path.abspath(__file__)))
sys.path.insert(0, HERE)
REPO = os.environ.get("VERIF_REPO", "/repo")
os.environ["FORCE_BINJA_MOCK"] = "1"
if REPO in sys.path:
    sys.path.remove(REPO)
sys.path.insert(0, REPO)


def _cpu(body):
    import z3
    from binja_test_mocks import binja_api  # noqa: F401
    from sc62015.pysc62015 import emulator as EMU
    from sc62015.pysc62015.instr import opcodes as OPC
    from binja_test_mocks.tokens import asm_str
    from spec import isa

    unit, model = body["unit"], body["model"]
    if model is None:
        return 4, "no model"
    cells = {int(k): v for k, v in (model.get("@cells") or {}).items()}
    addr = model.get("addr", 0x1000)
    code = ([unit["pre"]] if unit.get("pre") is not None else []) + [unit["opcode"]]
    for i, b in enumerate(code):
        cells[addr + i] = b
    mem = dict(cells)
    reads, writes = [], []

    def rd(a):
        reads.append(a)
        return mem.get(a, 0)

    def wr(a, v):
        writes.append(a)
        mem[a] = v

    emu = EMU.Emulator(EMU.Memory(rd, wr), reset_on_init=False)
    RN = EMU.RegisterName
    init = {}
    for r in ("BA", "I", "X", "Y", "U", "S", "F"):
        init[r] = model.get(r, 0)
    if unit.get("block_n") is not None:
        init["I"] = unit["block_n"]
    for r, v in init.items():
        emu.regs._values[RN[r]] = v
    for i in range(EMU.NUM_TEMP_REGISTERS):
        emu.regs._values[RN[f"TEMP{i}"]] = model.get(f"TEMP{i}", 0)
    emu.regs._values[RN.PC] = model.get("PC0", 0)
    halted0 = emu.state.halted
    try:
        ev = emu.execute_instruction(addr)
    except OPC.InvalidInstruction:
        return 0, "rejected natively"
    except Exception as e:  # noqa: BLE001
        return 1, f"native execution raised {type(e).__name__}: {e}"
    instr = ev.instruction
    if isinstance(instr, EMU._FallbackInstruction):
        return 0, "fallback natively"
    text = asm_str(instr.render())
    names = {m.name: int(m) for m in OPC.IMEMRegisters}
    arr = z3.K(z3.BitVecSort(64), z3.BitVecVal(0, 8))
    for a, v in cells.items():
        arr = z3.Store(arr, z3.BitVecVal(a, 64), z3.BitVecVal(v, 8))
    st = isa.State({k: isa.bv(v) for k, v in init.items()} | {"PC": isa.bv(0)}, arr)
    try:
        isa.execute(text, {}, names, st, isa.bv(addr), instr.length(), block_limit=unit.get("block_n"))
    except isa.NotSpecified as e:
        return 0, f"not specified: {e}"
    S = z3.simplify
    if st.defined and not z3.is_true(S(z3.And(st.defined))):
        return 0, f"input outside the documented domain: {text}"
    problems = []
    free = st.free
    fmask = 0xFF
    if "C" in free:
        fmask &= ~1
    if "Z" in free:
        fmask &= ~2
    if "Fhi" in free:
        fmask &= 3
    for r in ("BA", "I", "X", "Y", "U", "S", "PC"):
        want = S(st.r[r]).as_long()
        got = emu.regs.get(RN[r])
        if want != got:
            problems.append(f"{r}: documented {want:#x}, executed {got:#x}")
    want, got = S(st.r["F"]).as_long(), emu.regs.get(RN.F)
    if (want & fmask) != (got & fmask):
        problems.append(f"F: documented {want:#x}, executed {got:#x} (mask {fmask:#x})")
    # memory: every cell either side wrote
    spec_addrs = set()
    cur = st.mem
    while z3.is_store(cur):
        a, i, v = cur.children()
        iv = S(i)
        if z3.is_bv_value(iv):
            spec_addrs.add(iv.as_long())
        cur = a
    mfree = {}
    for f in free:
        if isinstance(f, tuple) and f[0] == "membits":
            mfree[S(isa.bv(f[1])).as_long()] = f[2]
    for a in sorted(spec_addrs | set(writes)):
        want = S(z3.Select(st.mem, z3.BitVecVal(a, 64))).as_long()
        got = mem.get(a, 0)
        m = 0xFF & ~mfree.get(a, 0)
        if (want & m) != (got & m):
            problems.append(f"mem[{a:#x}]: documented {want:#x}, executed {got:#x}")
    if st.halted is not None and bool(emu.state.halted) != st.halted:
        problems.append("halted state")
    if st.halted is None and emu.state.halted != halted0:
        problems.append("halted state changed")
    allowed = {addr + k for k in range(instr.length())} | {S(x).as_long() for x, _ in st.reads}
    extra = sorted(set(reads) - allowed)
    if extra:
        problems.append("reads outside the denoted locations: " + ", ".join(hex(a) for a in extra[:8]))
    if problems:
        return 1, f"{text}: " + "; ".join(problems)
    return 0, f"{text}: contract holds natively"


HANDLERS = {}


def handler(*props):
    def deco(fn):
        for p in props:
            HANDLERS[p] = fn
        return fn
    return deco


handler("C03", "C04", "C07")(_cpu)


def main():
    prop, path = sys.argv[1], sys.argv[2]
    body = json.load(open(path))
    kind = (body.get("extra") or {}).get("replayer") or body.get("unit", {}).get("replayer")
    fn = None
    if kind:
        import importlib
        modname, fname = kind.split(":")
        fn = getattr(importlib.import_module(modname), fname)
    else:
        fn = HANDLERS.get(prop)
    if fn is None:
        print("no native replayer for", prop)
        return 4
    try:
        code, text = fn(body)
    except Exception as e:  # noqa: BLE001
        import traceback
        traceback.print_exc()
        print("replayer error:", e)
        return 3
    print(text)
    return code


if __name__ == "__main__":
    sys.exit(main())
