"""C15: HD61202 protocol and pixel map (Python model: proof; Rust lcd.rs: not decided)."""
from props import common

FUNCS = ["pce500.display.hd61202:decode_access", "parse_command", "HD61202.write_instruction", "HD61202.write_data",
         "HD61202.read_data", "HD61202.read_instruction_status", "pce500.display.controller_wrapper:HD61202Controller.read",
         "HD61202Controller.write", "HD61202Controller.get_snapshot / pipeline.LCDPipeline.snapshot / _snapshot_from_chips", "HD61202Controller.get_display_buffer (Merge pass)", "pce500.display.pipeline:LCDPipeline._apply_command/_chip_indices"]


def run(prop, tier):
    v = common.Verdict(prop, "proof")
    v.functions = FUNCS
    known = common.load_known(prop)
    combos = [(True, True), (False, True)] if tier == "quick" else [(True, True), (True, False), (False, True), (False, False)]
    units = [dict(fn="unit_pixels", on=c, kind="pixel-map") for c in combos]
    units.append(dict(fn="unit_pixels_enum", on=(True, True), kind="pixel-map-enumeration", random_backgrounds=0 if tier == "quick" else 2, seed=common.seed()))
    units.append(dict(fn="unit_decode", kind="decode+parse"))
    units.append(dict(fn="unit_outside", kind="outside-window"))
    units += [dict(fn="unit_chip", op=o) for o in ("write_data", "read_data", "read_status", "ON_OFF", "START_LINE", "SET_PAGE", "SET_Y_ADDRESS")]
    units += [dict(fn="unit_route", kind="write"), dict(fn="unit_route", kind="read"), dict(fn="unit_write_outside", kind="outside-or-cs-none")]
    allr = common.run_units("contracts.lcd:unit_any", units, budget=1200)
    # HD61202Controller.load_snapshot (controller_wrapper.py) installs chip state: a controller restored from a snapshot
    # must still obey "one data write changes one cell" (shared with C16)
    allr += common.run_units("contracts.snapshot:unit_any", [dict(fn="unit_lcd_after_restore", fill=f, chip=c, page=p)
                                                             for f, c, p in (("blank", 0, 1), ("pattern", 1, 4))], budget=600)
    for r in allr:
        if r["unit"].get("fn") == "unit_pixels" and not any(r["unit"]["on"]):
            r["allow_empty"] = True
    reps = [r for r in allr if r["unit"].get("fn") != "unit_pixels_enum"]
    enum = [r for r in allr if r["unit"].get("fn") == "unit_pixels_enum"]
    v.absorb(reps, known)
    proved = (v.obligations, v.discharged)
    v.absorb(enum, known)
    v.obligations, v.discharged = proved
    v.extra["bounded_obligations"] = dict(generated=sum(r.get("obligations", 0) for r in enum), discharged=sum(r.get("proved", 0) for r in enum),
                                          note="pixel map re-checked by flipping each of the 8192 VRAM bits under 2(+2) backgrounds on the natively executed function: bounded, not counted")
    v.assumptions = [
        "chip state within its representation invariant (page 0-7, column 0-63, start line 0-63, on/busy booleans), VRAM = arbitrary bytes (z3 array behind a list-of-lists container contract)",
        "addresses inside the two LCD windows 0x2000-0x2FFF / 0xA000-0xAFFF (all 4096 offsets, both windows) for the decode contract; arbitrary 32-bit addresses for the 'outside' contract",
        "HD61202 protocol as stated in the property: data read returns the previous column then post-increments; status = busy<<7 | off<<5 and clears busy",
        "np.zeros replaced by a list-grid container contract inside get_display_buffer; `1 if not bit else 0` merged into one term by the mechanical Merge pass",
        "tracing disabled; write-trace callbacks empty",
        "Rust lcd.rs: NOT proved (no Rust verifier); bounded stand-in on the compiled code only; start-line scrolling and the on/off gating of the pixel buffer differ between the two models by design of their display helpers and are not compared",
    ]
    from props import rust_standin as RS
    lcd, odd = RS.lcd_vectors(tier, common.seed())
    vec = dict(lcd=lcd, lcd_write_at_read_address=odd)
    res = RS.run(vec, ["lcd", "lcd_write_at_read_address"])
    keep = (v.obligations, v.discharged)
    v.absorb(RS.reports(res, vec, ["lcd", "lcd_write_at_read_address"]), known, expect_obligations=False)
    v.obligations, v.discharged = keep
    nseq = 300 if tier == "quick" else 3000
    v.bounded = [RS.summarize(res, "lcd", f"LcdController::write/read/display_buffer on the compiled crate: every write decoding (8 even low nibbles) x 256 values followed by status and data reads of both chips; "
                                           f"{nseq} seeded random protocol sequences of 1-60 accesses over both windows and all 16 decodings (seed {common.seed()}); full-VRAM fills with the 240x32 pixel buffer compared "
                                           "against the documented layout (both chips on, start line 0); expected read values from the real Python HD61202Controller, which the Python half proves equal to the contract"),
                 RS.summarize(res, "lcd_write_at_read_address", "the 8 odd low nibbles x 256 values as WRITE accesses (see known finding)")]
    v.samples = [dict(obligation="wd:only-that-cell", statement="forall state, VRAM, d, k: k != page*64+col => vram'[k] == vram[k] after write_data(d)"),
                 dict(obligation="pixel[r,c]:injective", statement="the (chip,page,col,bit) feeding display cell (r,c) feeds no other cell"),
                 dict(obligation="route:write:cs1:chip0-untouched", statement="a write with chip-select RIGHT leaves the left chip's state and VRAM unchanged")]
    rule = ("per-operation contracts on symbolic chip state/VRAM; chip-select routing for all 16 low-nibble decodings; pixel map: all 7680 cells as terms over "
            "2x8x64 symbolic VRAM bytes, each proved to be one inverted VRAM bit, pairwise distinct")
    return v.finish(f"./check {prop} --tier {tier}", rule, tier)
