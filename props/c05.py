"""C05: branch metadata vs execution, at a symbolic 20-bit address; inverse-pair lemmas."""
from props import common, cpu_props
from contracts import cpu

CONTROL = [0x01, 0x02, 0x03, 0x04, 0x05, 0x06, 0x07] + list(range(0x10, 0x20)) + [0xFE, 0xFF]


def run(prop, tier):
    v = common.Verdict(prop, "proof")
    v.functions = cpu_props.FUNCS + ["sc62015.pysc62015.instr.opcodes:Instruction.analyze",
                                     "sc62015.pysc62015.instr.instructions:JumpInstruction/JP_Abs/JP_Rel/CALL/RetInstruction/RESET.analyze"]
    known = common.load_known(prop)
    units = []
    pres = [None] if tier == "quick" else [None, 0x32, 0x27]
    for pre in pres:
        for op in range(256):
            if op in cpu.PRE_BYTES:
                continue
            if tier == "quick" and op not in CONTROL and op in cpu.BLOCK_OPS:
                continue      # fall-through of counted instructions: thorough tier
            u = dict(pre=pre, opcode=op, sym_addr=True, branch_check=True, wall_s=600)
            if op in cpu.BLOCK_OPS or (op == 0xEF and pre is not None):
                u["block_n"] = 1
            units.append(u)
    # control-flow opcodes behind a PRE byte (the fused instruction is one byte longer)
    for pre in ((0x32, 0x21) if tier == "quick" else sorted(cpu.PRE_BYTES)):
        if pre in pres:
            continue
        for op in CONTROL:
            units.append(dict(pre=pre, opcode=op, sym_addr=True, branch_check=True, wall_s=600))
    units.sort(key=lambda u: 0 if u["opcode"] in (0xFE, 0x56, 0x5E, 0xF3, 0xFB) else 1)
    for u in units:
        u["known"] = [e for e in known if "witness" in e.get("match", {}) and common.unit_matches(e, u)]
    reps = common.run_units("contracts.cpu:unit_entry", units, budget=700)
    reps += common.run_units("contracts.cpu_lemmas:unit_lemmas", [dict(kind="inverse-pair-lemmas")], budget=300)
    v.absorb(reps, known)
    v.assumptions = list(cpu_props.ASSUME) + [
        "instruction address = arbitrary 20-bit symbol with address+7 <= 0xFFFFF (the instruction lies inside the external space)",
        "branch facts are read from the InstructionInfo filled by the real analyze() during Emulator.execute_instruction; SC62015.get_instruction_info wraps the same analyze() (agreement of the hooks is C01)",
        "call/return and IR/RETI inverse laws are lemmas over the per-instruction contracts; the callee body is an arbitrary state change that restores S and leaves the frame bytes alone; near CALL/RET needs caller and RET on the same 64 KiB page (stated, and shown necessary)",
        "a software interrupt (IR) reports no branch and is treated as a call that returns to address+1, as the property allows",
    ]
    v.bounded = [dict(part="fall-through of counted instructions", bound="I = 1", note="bounded")]
    for r in reps:
        if r.get("texts") and len(v.samples) < 6 and r["unit"].get("opcode") in (0x02, 0x14, 0x12, 0x04, 0x06, 0xFE):
            v.samples.append(dict(unit=r["unit"], rendered=r["texts"][:2], obligations=r["obligations"]))
    rule = ("work unit = opcode (+prefix) at a symbolic 20-bit address; obligations per path: info.length; every reported target == PC reached "
            "under the matching flag outcome (mod 2^20); no branch => PC == address+length; unresolved/return records only on instructions that can leave; "
            "plus the C04 register/memory obligations at that address; plus z3 lemmas CALL/RET, CALLF/RETF, IR/RETI")
    return v.finish(f"./check {prop} --tier {tier}", rule, tier)
