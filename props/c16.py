"""C16 (Python half): restore-point contract of PCE500Emulator.save_snapshot/load_snapshot (proof), with the
view-completeness / lockstep companion (bounded) and the cross-language metadata obligations (ground)."""
from props import common

FUNCS = ["pce500.emulator:PCE500Emulator.save_snapshot", "pce500.emulator:PCE500Emulator.load_snapshot",
         "pce500.emulator:_pack_register_bytes/_unpack_register_bytes (BytesJoin pass)", "PCE500Emulator._capture_lcd_snapshot/_restore_lcd_snapshot",
         "sc62015.pysc62015.cpu:CPU.snapshot_registers/apply_snapshot", "sc62015.pysc62015.stepper:CPURegistersSnapshot.from_registers/apply_to",
         "pce500.keyboard_matrix:KeyboardMatrix.snapshot_state/load_state", "pce500.display.controller_wrapper:HD61202Controller.get_snapshot/load_snapshot",
         "pce500.display.pipeline:_snapshot_from_chips", "pce500.memory:PCE500Memory.export_flat_memory/get_internal_memory_bytes (memory units)",
         "pce500.scheduler:TimerScheduler.reset/next_mti/next_sti setters (timer unit, shared with C13)"]
KEYS_QUICK = ["KEY_A", "KEY_ENTER", "KEY_F1", "KEY_Q", "KEY_P", "KEY_TRIANGLE_UP_DOWN"]
SRC = [None, "MTI", "STI", "KEY", "ONK"]
SCENARIOS = ["loop-timers", "halt-wake", "keys", "lcd", "card-ram"]


def all_keys():
    """Key names of the matrix of the tree under test, asked from a plain interpreter (the parent process must not
    import the repository natively)."""
    import json
    import subprocess
    import sys
    try:
        p = subprocess.run([sys.executable, "-c", "import json, pce500.keyboard_matrix as K; print(json.dumps(sorted(K.KEY_LOCATIONS)))"],
                           capture_output=True, text=True, timeout=120, env=dict(__import__("os").environ, PYTHONPATH=common.REPO, FORCE_BINJA_MOCK="1"))
        keys = json.loads(p.stdout.strip().splitlines()[-1])
        return [k for k in keys if isinstance(k, str)]
    except Exception:  # noqa: BLE001
        return []


def run(prop, tier):
    v = common.Verdict(prop, "proof")
    v.functions = FUNCS
    known = common.load_known(prop)
    units = [dict(fn="unit_core", temp=t, irq_source=SRC[t % len(SRC)]) for t in range(14)]
    units += [dict(fn="unit_lcd")]
    units += [dict(fn="unit_lcd_after_restore", fill=f, chip=c, page=p) for f in ("blank", "pattern") for c in (0, 1) for p in ((1, 4) if tier == "quick" else range(8))]
    keys = KEYS_QUICK if tier == "quick" else (all_keys() or KEYS_QUICK)
    units += [dict(fn="unit_keyboard", key=k, kol=kol, koh=koh, in_pressed_set=ps) for k in keys for (kol, koh) in ((0, 0), (0xFF, 0x0F)) for ps in (True, False)]
    units += [dict(fn="unit_keyboard", key="KEY_A", mode="regs", koh=h) for h in range(16)]
    units += [dict(fn="unit_metadata")]
    mem_cfgs = ["plain", "rom", "rom+card", "rom+xram", "card"]
    units += [dict(fn="unit_memory", cfg=c, known=known, replayer="contracts.snapshot_lockstep:replay_memory") for c in mem_cfgs]
    reps = common.run_units("contracts.snapshot:unit_any", units, budget=600)
    reps += common.run_units("contracts.timers:unit_snapshot", [dict(kind="snapshot-restore", in_interrupt=False), dict(kind="snapshot-restore", in_interrupt=True)], budget=300)
    v.absorb(reps, known)
    proved = (v.obligations, v.discharged)
    sp = [0, 3, 7, 12, 20, 33, 50] if tier == "quick" else list(range(0, 64, 3)) + [80, 120, 200]
    m = 60 if tier == "quick" else 300
    lock = common.run_units("contracts.snapshot:unit_lockstep", [dict(scenario=s, save_points=sp, m=m, replayer="contracts.snapshot_lockstep:replay") for s in SCENARIOS], budget=900)
    v.absorb(lock, known)
    nb = (v.obligations - proved[0], v.discharged - proved[1])
    v.obligations, v.discharged = proved
    steps = sum(r.get("lockstep_steps", 0) for r in lock)
    v.extra["bounded_obligations"] = dict(generated=nb[0], discharged=nb[1], note="view-completeness and lockstep obligations of the concrete scenarios: bounded, not counted in obligations/discharged")
    v.bounded = [dict(part="view completeness + lockstep continuation (contracts/snapshot_lockstep.py, plain CPython)",
                      bound=f"{len(SCENARIOS)} concrete scenarios ({', '.join(SCENARIOS)}) x save points {sp} x {m} further steps = {steps} lockstep steps; "
                            f"up to {max((r.get('attributes', 0) for r in lock), default=0)} attributes of the emulator object graph compared after the restore, modulo the listed bookkeeping attributes",
                      note="bounded: decides on these runs only that (a) no attribute outside the stated view and the bookkeeping list differs after a restore and (b) both emulators stay equal step for step")]
    v.assumptions = [
        "Python half only: pce500.emulator.PCE500Emulator with the python CPU backend; the Rust runtime's save/load (sc62015/core/src/snapshot.rs, lib.rs) is NOT decided (the snapshot feature needs the zip crate, which the offline reduced build lacks); the register blob layout Python vs Rust is decided under C08/C17",
        "restore-point contract: V(load(save(a))) == V(a) for the view V = registers incl. TEMP0-13 and call bookkeeping, power state, counters, interrupt latches, timer scheduler, keyboard matrix, both LCD chips incl. VRAM, memory image; "
        "'the future is unchanged' then follows because step() is a deterministic function of the emulator's object graph (CPython semantics) and nothing outside V and the listed bookkeeping attributes differs (bounded companion)",
        "json and zipfile are contract stubs: ints, bools and strings survive json.dumps/loads (dict keys become strings), an archive returns the members written",
        "keyboard: one arbitrary key symbolic per unit (quick: 6 keys, thorough: all keys of the table), the other keys idle; strobe registers: KOL symbolic x all 16 KOH values; queue slots, head and tail symbolic",
        "scratch registers: one symbolic per unit, the others concrete and non-zero (from_registers() tests each for zero)",
        "memory: external image, ROM and card payloads are z3 arrays (every content); the fresh emulator starts from different arbitrary contents; configurations plain / ROM / ROM+card",
        "tracing off; wall-clock fields (created, start_time) excluded",
    ]
    v.samples = [dict(obligation="restore:power-state", statement="forall state: halted(load(save(a))) == halted(a)"),
                 dict(obligation="restore:lcd0:vram", statement="forall 512 VRAM bytes of the chip: byte'(p, c) == byte(p, c)"),
                 dict(obligation="restore:memory:every-address", statement="forall images, forall x < 2^24: read_byte_b(x) == read_byte_a(x) after b.load_snapshot(a.save_snapshot())"),
                 dict(obligation="lockstep:halt-wake@12", statement="original and restored emulator agree on the whole view after each of the next m steps (bounded)")]
    rule = ("real save_snapshot -> load_snapshot pair on two real PCE500Emulator objects with the state components symbolic (one work unit per component group); "
            "obligations: every component of the view restored exactly; cross-language metadata fields by evaluation; bounded deep-diff + lockstep companion on concrete scenarios")
    return v.finish(f"./check {prop} --tier {tier}", rule, tier)
