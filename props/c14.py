"""C14: keyboard matrix (Python model: automaton/FIFO proof, row computation for all keys by the for-each rule)."""
from props import common

FUNCS = ["pce500.keyboard_matrix:KeyboardMatrix._update_key_state", "press_key", "release_key", "inject_event", "release_all_keys",
         "scan_tick (event collection / enqueue loop for bursts of 0..13 events in one tick, automaton step cut)", "_enqueue_event", "pop_fifo", "fifo_snapshot", "_active_columns", "_compute_kil (for-each rule over the key table)", "read_kil", "peek_kil", "write_kol", "write_koh", "load_state (KOL/KOH masks)", "get_active_columns", "scan_tick",
         "MatrixEvent.to_byte", "pce500.emulator:PCE500Emulator._tick_timers (KEYI gating)"]
KEYSETS = [["KEY_A", "KEY_D", "KEY_ENTER"], ["KEY_Q", "KEY_E", "KEY_F1"], ["KEY_TRIANGLE_UP_DOWN", "KEY_P", "KEY_W"]]


def run(prop, tier):
    v = common.Verdict(prop, "proof")
    v.functions = FUNCS
    known = common.load_known(prop)
    reps = common.run_units("contracts.keys:unit_automaton", [dict(strobed=True), dict(strobed=False)], budget=300)
    reps += common.run_units("contracts.keys:unit_key_ops", [dict(op=o) for o in ("press", "release", "inject-press", "inject-release", "release-all")], budget=300)
    fifo = [dict(head=h, tail=t, release=(h + t) % 2 == 1, repeat=(h + t) % 3 == 0) for h in range(8) for t in range(8)]
    reps += common.run_units("contracts.keys:unit_fifo", fifo, budget=300)
    reps += common.run_units("contracts.keys:unit_scan", [dict(key=k, strobed=s) for k in ("KEY_A", "KEY_ENTER", "KEY_F1") for s in (True, False)], budget=300)
    burst = [dict(n=n, head=h, tail=t, release=(n + h) % 2 == 1) for n in (0, 1, 2, 6, 7, 8, 9, 13) for (h, t) in ((0, 0), (5, 2), (7, 6), (3, 3))]
    reps += common.run_units("contracts.keys:unit_scan_burst", burst, budget=300)
    reps += common.run_units("contracts.keys:unit_keyi", [dict(events=e, kb_irq=k) for e in (0, 1, 3) for k in (True, False)], budget=300)
    # row computation: _active_columns under its own contract (complete case split on the KOL high nibble), register
    # invariant, and _compute_kil/read_kil/peek_kil with every key in an arbitrary state by the for-each rule
    reps += common.run_units("contracts.keys:unit_active_columns", [dict(kol_hi=h, active_high=p) for h in range(16) for p in (True, False)], budget=300)
    reps += common.run_units("contracts.keys:unit_koh_invariant", [dict(active_high=p) for p in (True, False)], budget=300)
    reps += common.run_units("contracts.keys:unit_kil_all", [dict(active_high=p, entry=e) for p in (True, False) for e in ("read_kil", "peek_kil")], budget=900)
    v.absorb(reps, known)
    proved = (v.obligations, v.discharged)
    v.bounded = [dict(part="scan_tick", bound="one key in arbitrary state, the others idle, default thresholds", note="per-key loop body proved for all states by unit_automaton; the composition over several simultaneously active keys (event order = key table order) is not proved")]
    if tier == "thorough":
        kil = [dict(kol_hi=h, active_high=p, keys=ks) for h in range(16) for p in (True, False) for ks in KEYSETS]
        kreps = common.run_units("contracts.keys:unit_kil", kil, budget=1200)
        v.absorb(kreps, known)
        nb = (v.obligations - proved[0], v.discharged - proved[1])
        v.obligations, v.discharged = proved
        v.extra["bounded_obligations"] = dict(generated=nb[0], discharged=nb[1],
                                              note="cross-check of the cut: row computation with the real _active_columns inlined and at most 3 non-idle keys; not counted in obligations/discharged")
        v.bounded.append(dict(part="_compute_kil with _active_columns inlined (cross-check of the contract cut)", bound=f"<= 3 keys in arbitrary state ({len(KEYSETS)} key sets), all other keys idle, all KOL/KOH values",
                              note="bounded companion; the unbounded statement is unit_kil_all"))
    from props import rust_standin as RS
    vec = dict(keyboard=dict(press_thresholds=[6, 1, 2, 3] if tier == "quick" else [6, 1, 2, 3, 4, 5, 7, 12]))
    res = RS.run(vec, ["keyboard"])
    v.absorb(RS.reports(res, vec, ["keyboard"]), known, expect_obligations=False)
    v.obligations, v.discharged = proved
    v.bounded.append(RS.summarize(res, "keyboard", "KeyboardMatrix on the compiled crate, laws stated in the Rust test from the property text: each of the 88 keys x both column polarities x press thresholds "
                                                   f"{vec['keyboard']['press_thresholds']}: silent while its column is not strobed, no event and no row bit before the debounce interval, exactly one press event and exactly its row bit after it, "
                                                   "repeat events at delay 24 then every 6 ticks, row bit gone and exactly one release event after the release interval; FIFO capacity/drop-oldest/order for 1..12 events; KEYI gating"))
    v.assumptions = [
        "per-key representation invariant: not debounced => 0 <= press_ticks < press_threshold and release_ticks = 0; debounced => 0 <= release_ticks < release_threshold; repeat_ticks >= 0 (proved established by press/release/inject/release_all and preserved by _update_key_state; load_state takes it as a precondition)",
        "tick counters and thresholds are unbounded mathematical integers; thresholds >= 1, repeat settings >= 0 (the constructor clamps them so)",
        "event queue capacity is FIFO_SIZE-1 = 7 entries (ring buffer with one free slot)",
        "KEYI gating checked on a context stub of PCE500Emulator (scan result and enable flag enumerated)",
    ]
    v.samples = [dict(obligation="rises-iff-held-for-debounce-interval", statement="forall state in Inv, thresholds: not debounced => (debounced' <=> pressed and strobed and press_ticks+1 >= press_threshold)"),
                 dict(obligation="enqueue:appends-and-drops-only-oldest", statement="forall head,tail,contents,event: view' = (view or view[1:] when full) + [byte(event)]"),
                 dict(obligation="press:keeps-debounced", statement="press_key never changes the debounced flag"),
                 dict(obligation="for0:inv-preserved / kil-all:row r", statement="forall KOL, KOH, polarity, all 87 key states: after k keys, bit r of value <=> exists j < k: row_j = r and column_j strobed and debounced_j; at exit: KIL bit r <=> some debounced key of row r sits on a strobed column")]
    rule = ("automaton contract on one symbolic key (all states in the invariant, all thresholds), key operations establish the invariant, FIFO against its sequence view for all 64 head/tail pairs, "
            "scan_tick = automaton + queue, KEYI gating; row computation: _active_columns contract (complete case split) + fold invariant over the whole key table (for-each rule), every key in an arbitrary state")
    return v.finish(f"./check {prop} --tier {tier}", rule, tier)
