"""C09: disassembled text reassembles to an equivalent instruction (bounded contract check => 'exploration')."""
import json
import os
import re

from props import common
from contracts import asmrt

FUNCS = ["sc62015.pysc62015.sc_asm:Assembler.assemble/_build_instruction/_encode_statement", "sc62015.pysc62015.asm:AsmTransformer (operand builders)",
         "sc62015.pysc62015.instr.opcodes:Instruction.render/IMemHelper.render/IMemOperand.encode", "sc62015.pysc62015.instr.instructions:ExchangeInstruction.encode"]


def run(prop, tier):
    v = common.Verdict(prop, "exploration")
    v.functions = FUNCS
    known = common.load_known(prop)
    pres = [None, 0x32, 0x25] if tier == "quick" else [None] + list(asmrt.PRE_BYTES)
    if tier == "quick":
        # every opcode without prefix; under each of the 15 prefixes the opcodes with an internal-memory
        # operand (a prefix in front of the others is the listed 'useless prefix' class: a few samples)
        from props import cpu_props
        im = cpu_props.imem_opcodes()
        sel = [(None, op) for op in range(256) if op not in asmrt.PRE_BYTES]
        sel += [(p, op) for p in asmrt.PRE_BYTES for op in sorted(im) if op not in asmrt.PRE_BYTES]
        sel += [(0x32, op) for op in (0x08, 0x90, 0xFD, 0x12, 0x04) if op not in im]
        units = [dict(pre=p, opcode=op, thorough=False, thin=(p is not None), replayer="contracts.asmrt:replay") for p, op in sel]
    else:
        units = [dict(pre=p, opcode=op, thorough=True, replayer="contracts.asmrt:replay") for p in pres for op in range(256) if op not in asmrt.PRE_BYTES]
    heavy = {0xC8, 0xC9, 0xCA, 0xCB, 0xCF, 0xC0, 0xC1, 0xC2, 0xC3, 0xC4, 0xD4, 0x54, 0x5C, 0x6E, 0x76, 0x7E, 0xB7, 0xC6, 0xC7, 0xD0, 0xD1, 0xD2, 0xD3, 0xD8, 0xD9, 0xDA, 0xDB, 0xCC, 0xCD, 0xDC}
    units.sort(key=lambda u: 0 if u["opcode"] in heavy else 1)
    units = [dict(fn="unit_listing", pre=p, per_opcode=4 if tier == "quick" else 12, replayer="contracts.asmrt:replay_listing") for p in pres] + units
    reps = common.run_units("contracts.asmrt:unit_any", units, budget=900)
    if os.environ.get("C09_DUMP"):
        json.dump(reps, open(os.environ["C09_DUMP"], "w"), default=str)
    v.absorb(reps, known)
    evals = sum(r.get("obligations", 0) for r in reps)
    v.extra["evaluations"] = sum((r.get("kinds") or {}).get("candidates", 0) for r in reps)
    v.extra["distinct_nontrivial"] = evals      # distinct accepted encodings (deduplicated per unit by their consumed bytes)
    v.extra["exhaustive"] = False
    v.bounded = [dict(part="Assembler.assemble round trip", bound=f"prefixes {[hex(p) if p else None for p in pres]} x 241 opcodes x every selector/mode byte x 4 operand tails + every named internal register",
                      note="structure enumerated through the real decoder; operand values sampled")]
    v.assumptions = [
        "text handed to the assembler = rendered tokens with numbers as 0x.. literals and named internal registers by name",
        "strings and the lark parser are outside the symbolic engine: this property is checked bounded only",
    ]
    for r in reps:
        if r.get("sample") and len(v.samples) < 5:
            v.samples.append(r["sample"])
    rule = "for every accepted encoding reached by the enumeration: assemble(text) succeeds, decodes to the same text and IL, second round is a fixpoint; distinct = distinct accepted encodings"
    return v.finish(f"./check {prop} --tier {tier}", rule, tier)
