"""C02: encoding is the exact inverse of decoding on every accepted instruction."""
from props import common, c01
from contracts import codec


def run(prop, tier):
    v = common.Verdict(prop, "proof")
    v.functions = ["sc62015.pysc62015.instr.opcodes:encode", "iter_encode", "Instruction.encode", "operands_coding", "every operand class .encode",
                   "sc62015.pysc62015.instr.instructions:ExchangeInstruction.encode", "sc62015.arch:SC62015.get_instruction_text (round-trip guard)"] + c01.FUNCS[:6]
    known = common.load_known(prop)
    us = [u for u in c01.units(tier, "C02") if u["L"] == codec.FULL]
    if tier == "quick":
        # different prefixes than C01's quick tier
        us = [u for u in us if u["b0"] not in codec.PRE_BYTES]
        for p in (0x25, 0x30, 0x36):
            us += [dict(b0=p, b1=b1, L=codec.FULL, want="C02") for b1 in range(256)]
    reps = common.run_units("contracts.codec:unit", us, budget=600)
    v.absorb(reps, known)
    proved = (v.obligations, v.discharged)
    hunits = [dict(b0=b, samples=4 if tier == "quick" else 24, seed=common.seed(), kind="hooks-after-history", replayer="contracts.codec:replay_hooks_history") for b in range(256)]
    hreps = common.run_units("contracts.codec:unit_hooks_history", hunits, budget=300)
    v.absorb(hreps, known)
    nb = (v.obligations - proved[0], v.discharged - proved[1])
    v.obligations, v.discharged = proved
    v.extra["bounded_obligations"] = dict(generated=nb[0], discharged=nb[1], note="concrete callback histories: bounded, not counted in obligations/discharged")
    v.bounded = [dict(part="architecture callbacks after a history sharing a byte prefix (contracts.codec:unit_hooks_history)",
                      bound=f"256 first bytes x {hunits[0]['samples']} concrete byte strings x every shared-prefix length 1..length: the callbacks' answer for s after they were asked about s' "
                            "(same first k bytes) equals what the plain decoder says about s alone (length, text, IL, round-trip guard)",
                      note="bounded companion for caches keyed on part of the bytes: a symbolic byte string cannot follow a hash lookup (such a change makes the symbolic units undecided, never 'held')")]
    v.assumptions = [
        "every operand byte, including every don't-care bit (high nibble of 20-bit immediates, bit 3 / bits 4-7 of register selectors, spare register-pair bits), is a free symbol",
        "re-decoded text compared as templates whose placeholders are proved equal; re-decoded IL compared structurally with proved-equal leaves",
        "the round-trip guard of get_instruction_text is covered by 'info accepts => text accepts' on every accepting path",
    ]
    for r in reps:
        if len(v.samples) < 5 and r.get("obligations", 0) > 20:
            v.samples.append(dict(unit=r["unit"], path_outcomes=r["kinds"], obligations=r["obligations"]))
    rule = "per first byte (pair), on every accepting path: encode(decode(b))[i] == b[i] for i < length, same length; decode(encode(decode(b))) has the same text, length and IL; text hook never rejects what info accepts"
    return v.finish(f"./check {prop} --tier {tier}", rule, tier)
