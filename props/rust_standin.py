"""Bounded stand-in for the Rust halves (C08, C13, C15): the real Rust functions, compiled from the
tree under test in a scratch copy, are driven with input vectors whose expected values come from the
contracts the Python halves are proved against.  Labelled bounded everywhere; never counted in
obligations/discharged.  If cargo or the vendored crates are missing the result is 'skipped'."""
from __future__ import annotations

import glob
import json
import os
import re
import shutil
import subprocess
import tempfile
import time

from props import common

HERE = os.path.dirname(os.path.dirname(os.path.abspath(__file__)))
HARNESS = os.path.join(HERE, "rust_harness")
CRATES = {"itoa": "1.", "memchr": "2.", "proc-macro2": "1.", "quote": "1.", "serde": "1.", "serde_core": "1.",
          "serde_derive": "1.", "serde_json": "1.", "syn": "2.", "thiserror": "1.", "thiserror-impl": "1.",
          "unicode-ident": "1.", "zmij": "1."}


def _vkey(v):
    return tuple(int(x) if x.isdigit() else 0 for x in re.split(r"[.+-]", v)[:3])


def _find_crates():
    roots = glob.glob(os.path.expanduser("~/.cargo/registry/src/*/"))
    out = {}
    for name, major in CRATES.items():
        best = None
        for r in roots:
            for d in glob.glob(os.path.join(r, name + "-[0-9]*")):
                ver = os.path.basename(d)[len(name) + 1:]
                if ver.startswith(major) and (best is None or _vkey(ver) > _vkey(best[0])):
                    best = (ver, d)
        if best is None:
            return None, name
        out[name] = best
    return out, None


def run(vectors: dict, tests: list[str], timeout=900):
    """Returns dict(status='ok'|'skipped'|'error', components={name: dict(cases, checks, failures)}, fails=[...], ...)."""
    t0 = time.time()
    if shutil.which("cargo") is None:
        return dict(status="skipped", why="cargo not found")
    crates, missing = _find_crates()
    if crates is None:
        return dict(status="skipped", why=f"crate {missing} not in the local cargo registry")
    src = os.path.join(common.REPO, "sc62015", "core", "src")
    if not os.path.isdir(src):
        return dict(status="error", why=f"{src} missing")
    d = tempfile.mkdtemp(prefix="verif_rust_")
    try:
        shutil.copytree(src, os.path.join(d, "src"))
        shutil.copy(os.path.join(HARNESS, "Cargo.toml"), os.path.join(d, "Cargo.toml"))
        os.makedirs(os.path.join(d, "tests"))
        shutil.copy(os.path.join(HARNESS, "verif_contracts.rs"), os.path.join(d, "tests", "verif_contracts.rs"))
        os.makedirs(os.path.join(d, "vendor"))
        for name, (ver, path) in crates.items():
            dst = os.path.join(d, "vendor", f"{name}-{ver}")
            shutil.copytree(path, dst)
            with open(os.path.join(dst, ".cargo-checksum.json"), "w") as f:
                f.write('{"files":{},"package":null}')
        os.makedirs(os.path.join(d, ".cargo"))
        with open(os.path.join(d, ".cargo", "config.toml"), "w") as f:
            f.write('[source.crates-io]\nreplace-with = "vendored"\n[source.vendored]\ndirectory = "vendor"\n[net]\noffline = true\n')
        vec = os.path.join(d, "vectors.json")
        with open(vec, "w") as f:
            json.dump(vectors, f)
        env = dict(os.environ, VERIF_VECTORS=vec, CARGO_TARGET_DIR=os.path.join(d, "target"), CARGO_NET_OFFLINE="true")
        tb = time.time()
        p = subprocess.run(["cargo", "test", "--offline", "--test", "verif_contracts", "--no-run"], cwd=d, env=env,
                           capture_output=True, text=True, timeout=timeout)
        build_s = round(time.time() - tb, 1)
        if p.returncode != 0:
            return dict(status="error", why="scratch build of sc62015-core failed", output=(p.stdout + p.stderr)[-3000:], build_s=build_s)
        tr = time.time()
        cmd = ["cargo", "test", "--offline", "--test", "verif_contracts", "--"] + list(tests) + ["--exact", "--nocapture", "--test-threads=1"]
        p = subprocess.run(cmd, cwd=d, env=env, capture_output=True, text=True, timeout=timeout)
        out = p.stdout + "\n" + p.stderr
        comps, fails, classes = {}, [], []
        for ln in out.splitlines():
            m = re.search(r"VERIF-CLASS component=(\S+) count=(\d+) key=(.*)", ln.strip())
            if m:
                classes.append(dict(component=m.group(1), count=int(m.group(2)), key=m.group(3)))
            m = re.search(r"VERIF-DONE component=(\S+) cases=(\d+) checks=(\d+) failures=(\d+)", ln.strip())
            if m:
                comps[m.group(1)] = dict(cases=int(m.group(2)), checks=int(m.group(3)), failures=int(m.group(4)))
            m = re.search(r"VERIF-FAIL component=(\S+) case=(\d+) step=(\d+) what=(.*)", ln.strip())
            if m:
                fails.append(dict(component=m.group(1), case=int(m.group(2)), step=int(m.group(3)), what=m.group(4)))
        status = "ok"
        why = None
        missing_done = [t for t in tests if t not in comps]
        if p.returncode != 0 or missing_done:
            status, why = "error", f"rust harness exit {p.returncode}; no summary for {missing_done}: {out[-1500:]}"
        return dict(status=status, why=why, components=comps, fails=fails, classes=classes, build_s=build_s, run_s=round(time.time() - tr, 1),
                    wall_s=round(time.time() - t0, 1), crates={k: v[0] for k, v in crates.items()})
    except subprocess.TimeoutExpired:
        return dict(status="error", why="rust harness timeout")
    finally:
        shutil.rmtree(d, ignore_errors=True)


# ------------------------------------------------------------------------------ vectors: timers (C13)
def timer_vectors(tier):
    """Expected values from the contract of TimerScheduler.advance (closed form): a timer fires at a
    tick iff enabled, period > 0 and cycle >= target; its target then moves by whole periods to the
    first value > cycle; ISR |= 1 (main) / 2 (sub)."""
    pmax = 6 if tier == "quick" else 12
    periods = [(m, s) for m in range(0, pmax + 1) for s in range(0, pmax + 1)]
    if tier != "quick":
        periods += [(2048, 65536), (65536, 2048), (1, 100000), (999983, 7)]
    every = list(range(0, 40))
    gaps = [0, 3, 4, 9, 20, 21, 50, 51, 52, 200, 1000, 1001, 5000]
    big = [5, 1 << 20, (1 << 20) + 1, 3 << 20]
    cases = []

    def sim(enabled, mp, sp, cycles, reset_at=None, nm=None, ns=None, isr=None, kb=None):
        base = reset_at or 0
        next_m = base + mp if (enabled and mp > 0) else 0
        next_s = base + sp if (enabled and sp > 0) else 0
        if nm is not None:
            next_m = nm
        if ns is not None:
            next_s = ns
        cur_isr = 0
        ticks = []
        for i, c in enumerate(cycles):
            st = dict(cycle=c)
            if isr is not None and i % 5 == 0:
                cur_isr = isr[(i // 5) % len(isr)]
                st["isr_before"] = cur_isr
            m = s = False
            if enabled:
                if mp > 0 and c >= next_m:
                    m = True
                    next_m += ((c - next_m) // mp + 1) * mp
                if sp > 0 and c >= next_s:
                    s = True
                    next_s += ((c - next_s) // sp + 1) * sp
            cur_isr |= (1 if m else 0) | (2 if s else 0)
            if kb is not None:
                # runtime entry point: when the main timer fires the keyboard is scanned; key events
                # with keyboard interrupts enabled latch KEYI (ISR bit 2); a latch re-asserts it
                ev = kb["events"][i % len(kb["events"])]
                st["key_events"] = ev
                if m and ev > 0 and kb["enabled"]:
                    kb["latched"] = True
                if kb["latched"]:
                    cur_isr |= 4
            st.update(mti=m, sti=s, isr_after=cur_isr)
            if enabled and mp > 0:
                st["next_mti"] = next_m
            if enabled and sp > 0:
                st["next_sti"] = next_s
            ticks.append(st)
        c = dict(enabled=enabled, mp=mp, sp=sp, ticks=ticks)
        if kb is not None:
            c.update(with_keyboard=True, kb_irq_enabled=kb["enabled"])
        if reset_at is not None:
            c["reset_at"] = reset_at
        if nm is not None:
            c["next_mti"] = nm
        if ns is not None:
            c["next_sti"] = ns
        return c

    for mp, sp in periods:
        small = mp <= 12 and sp <= 12
        cases.append(sim(True, mp, sp, every if small else gaps))
        cases.append(sim(True, mp, sp, gaps, isr=[0x00, 0x80, 0x03, 0x54]))
        cases.append(sim(True, mp, sp, [7 + c for c in every], reset_at=7))
        if mp and sp:
            cases.append(sim(True, mp, sp, [c for c in every if c >= 5], nm=5, ns=6))     # restored targets, already due
            cases.append(sim(True, mp, sp, big))
        cases.append(sim(False, mp, sp, gaps))
        if mp and mp <= 6 and sp <= 6:
            for en in (True, False):
                cases.append(sim(True, mp, sp, every, kb=dict(enabled=en, latched=False, events=[0, 0, 1, 0, 2, 0, 0])))
                cases.append(sim(True, mp, sp, every, isr=[0x00, 0x04, 0x03], kb=dict(enabled=en, latched=False, events=[1, 0, 0])))
    return cases


# ------------------------------------------------------------------------------ vectors: registers (C08)
def regs_vectors(tier):
    import z3
    from spec import regfile as RF
    names = ["A", "B", "BA", "IL", "IH", "I", "X", "Y", "U", "S", "F", "PC", "FC", "FZ", "TEMP0", "TEMP13"]
    vals = [0, 1, 2, 3, 0x7F, 0x80, 0xFF, 0x100, 0x1234, 0xFFFF, 0x10000, 0xFFFFF, 0x100000, 0xABCDEF, 0xFFFFFF, 0x1000000, 0xFFFFFFFF]
    few = [0, 1, 0xFF, 0x1234, 0xABCDE, 0xFFFFFFFF] if tier == "quick" else [0, 1, 2, 0x80, 0xFF, 0x100, 0x1234, 0xABCDE, 0xFFFFFF, 0xFFFFFFFF]
    bases = [b for b in RF.BASE_MASK if not b.startswith("TEMP")] + ["TEMP0", "TEMP13"]
    inits = [dict.fromkeys(bases, 0),
             {b: RF.BASE_MASK[b] for b in bases},
             dict(BA=0x3412, I=0xA55A, X=0x12345, Y=0xFEDCB, U=0x0F0F0, S=0xBFFFF, PC=0xF1234, F=0xA6, TEMP0=0x123456, TEMP13=0x654321)]
    S = lambda t: z3.simplify(t).as_long()
    cases = []

    def case(init, sets):
        view = {b: RF.bv(0) for b in RF.BASE_MASK}
        ops = []
        for b, v in init.items():
            ops.append(dict(op="set", reg=b, value=v))
            view = RF.set_(view, b, v)
        for r, v in sets:
            ops.append(dict(op="set", reg=r, value=v))
            view = RF.set_(view, r, v)
        for q in names:
            ops.append(dict(op="get", reg=q, expect=S(RF.get(view, q))))
        cases.append(dict(ops=ops))

    for init in inits:
        for r in names:
            for v in vals:
                case(init, [(r, v)])
    for r1 in names:
        for v1 in few:
            for r2 in names:
                for v2 in few[:4] if tier == "quick" else few:
                    case(inits[2], [(r1, v1), (r2, v2)])
    return cases


# ------------------------------------------------------------------------------ vectors: LCD (C15)
def lcd_vectors(tier, seed):
    """Expected read values from the real Python HD61202Controller run natively on the same sequence
    (proved against the HD61202 contract by the Python half of C15); expected pixels from the
    documented layout applied to that controller's VRAM, for both chips on and start line 0."""
    import random
    import sys
    os.environ["FORCE_BINJA_MOCK"] = "1"
    if common.REPO not in sys.path:
        sys.path.insert(0, common.REPO)
    from pce500.display.controller_wrapper import HD61202Controller
    from contracts import lcd as LCD
    rnd = random.Random(seed)
    cases, odd = [], []

    def run_case(ops_in, pixels=False):
        ctl = HD61202Controller()
        ops = []
        for kind, addr, val in ops_in:
            if kind == "w":
                try:
                    ctl.write(addr, val)
                except ValueError:
                    return None         # Python rejects the access (write to a read address): outside the common protocol
                ops.append(dict(op="write", addr=addr, value=val))
            else:
                try:
                    got = ctl.read(addr)
                except ValueError:
                    return None
                ops.append(dict(op="read", addr=addr, expect=None if got is None else int(got) & 0xFF))
        c = dict(ops=ops)
        if pixels:
            rows = []
            for r in range(32):
                row = []
                for col in range(240):
                    chip, page, x, bit = LCD.documented_source(r, col)
                    row.append("0" if (ctl.chips[chip].vram[page][x] >> bit) & 1 else "1")
                rows.append("".join(row))
            c["pixels"] = rows
        return c

    windows = (0x2000, 0xA000)
    # every decoding x every value as a single write, followed by status and data reads on both chips
    probe = [("r", 0x2000 | 0x5, 0), ("r", 0x2000 | 0x9, 0), ("r", 0x2000 | 0x7, 0), ("r", 0x2000 | 0xB, 0), ("r", 0x2000 | 0x7, 0), ("r", 0x2000 | 0xB, 0)]
    for lo in range(16):
        for val in range(256):
            w = windows[val & 1]
            c = run_case([("w", 0x2000 | 0x2, 0x5A), ("w", w | lo | ((val * 16) & 0xFF0), val)] + probe)
            if c:
                # a write whose address decodes as a READ access (odd low nibble) is kept apart: see the
                # known finding C15-rust-executes-writes-at-read-addresses
                (odd if lo & 1 else cases).append(c)
    # random protocol sequences
    n = 300 if tier == "quick" else 3000
    cmd_vals = [0x3E, 0x3F, 0x40, 0x7F, 0x45, 0xB8, 0xBF, 0xBB, 0xC0, 0xFF, 0xC8]
    for _ in range(n):
        ops = []
        for _ in range(rnd.randint(1, 60)):
            lo = rnd.randrange(16)
            w = rnd.choice(windows) | (rnd.randrange(256) << 4) & 0xFF0
            if lo & 1:
                ops.append(("r", w | lo, 0))
            else:
                val = rnd.choice(cmd_vals) if (lo & 2) == 0 and rnd.random() < 0.7 else rnd.randrange(256)
                ops.append(("w", w | lo, val))
        c = run_case(ops)
        if c:
            cases.append(c)
    # pixel layout: fill both chips through the protocol with a pseudo-random pattern
    for k in range(2 if tier == "quick" else 8):
        ops = [("w", 0x2000, 0x3F), ("w", 0x2000, 0xC0)]            # both on, start line 0
        for chip_lo in (0x4, 0x8):
            for page in range(8):
                ops.append(("w", 0x2000 | chip_lo, 0xB8 | page))
                ops.append(("w", 0x2000 | chip_lo, 0x40))
                for _ in range(64):
                    ops.append(("w", 0x2000 | chip_lo | 2, rnd.randrange(256)))
        c = run_case(ops, pixels=True)
        if c:
            cases.append(c)
    return cases, odd


def summarize(res, component, bound_text):
    """Evidence entry (bounded part) for a stand-in result."""
    if res.get("status") == "skipped":
        return dict(part=f"Rust {component}", bound="not run", note=f"skipped: {res.get('why')}")
    c = (res.get("components") or {}).get(component, {})
    return dict(part=f"Rust {component} (bounded stand-in on the compiled real code)", bound=bound_text,
                note=f"bounded: {c.get('cases', 0)} cases, {c.get('checks', 0)} comparisons, {c.get('failures', 0)} failures; "
                     f"build {res.get('build_s')} s, run {res.get('run_s')} s; never counted as proved")


def reports(res, vectors, components):
    """Turn a stand-in result into work-unit reports for Verdict.absorb (bounded: obligations are
    reported as 0 here and separately in the bounded section)."""
    out = []
    if res.get("status") == "skipped":
        return out
    if res.get("status") != "ok":
        return [dict(unit=dict(kind="rust-standin"), status="checker-error", error=f"rust stand-in: {res.get('why')} {res.get('output', '')[-800:]}")]
    for comp in components:
        c = (res.get("components") or {}).get(comp, {})
        fails = [f for f in res.get("fails", []) if f["component"] == comp]
        failed = []
        if isinstance(vectors[comp], dict):
            # law-based component: one entry per failure class reported by the harness
            for cl in [x for x in res.get("classes", []) if x["component"] == comp]:
                ex = next((f["what"] for f in fails if f["what"].startswith(cl["key"])), cl["key"])
                failed.append(dict(name=f"rust:{comp}", detail=f"{cl['count']} x {ex}", model=dict(case=vectors[comp], key=cl["key"]), backend="rust-harness"))
            nfailed = len(failed)
        else:
            seen = set()
            for f in fails:
                if f["case"] in seen or len(failed) >= 3:
                    continue
                seen.add(f["case"])
                case = vectors[comp][f["case"]]
                failed.append(dict(name=f"rust:{comp}", detail=f"case {f['case']} step {f['step']}: {f['what']}", model=dict(case=case), backend="rust-harness"))
            nfailed = max(len({f["case"] for f in fails}), len(failed)) if c.get("failures", 0) else 0
        out.append(dict(unit=dict(kind="rust-standin", component=comp, replayer="props.rust_standin:replay"), status="ok", obligations=0, proved=0,
                        failed=failed, nfailed=nfailed, allow_empty=True, stats={}))
    return out


def replay(body):
    """Native replay of one failing stand-in case: rebuild the scratch crate from the tree under test
    and run just that case."""
    unit, model = body["unit"], body.get("model") or {}
    case = model.get("case")
    if case is None:
        return 4, "no case recorded"
    comp = unit["component"]
    key = model.get("key")
    res = run({comp: case if key is not None else [case]}, [comp])
    if res.get("status") != "ok":
        return 3, f"stand-in could not run: {res.get('why')}"
    f = [x for x in (res.get("fails") or []) if key is None or x["what"].startswith(key)]
    if f:
        return 1, f"compiled Rust {comp}: " + "; ".join(x["what"] for x in f[:4])
    return 0, "the case passes on the compiled Rust code"
