"""C01: decoding any byte string is total, deterministic and consistent across consumers."""
from props import common
from contracts import codec

FUNCS = ["sc62015.pysc62015.instr.opcodes:decode", "fusion", "iter_decode", "create_instruction", "Instruction.decode", "every operand class .decode",
         "sc62015.pysc62015.instr.instructions:PRE.fuse/analyze/lift", "sc62015.arch:SC62015.get_instruction_info", "get_instruction_text",
         "get_instruction_low_level_il", "sc62015.pysc62015.emulator:Emulator.decode_instruction", "sc62015.pysc62015.cached_decoder:CachedFetchDecoder.*",
         "(executed, third party) binja_test_mocks.coding:Decoder/Encoder"]
QUICK_PRES = (0x21, 0x32, 0x37)


def units(tier, want):
    us = []
    for b0 in range(256):
        if b0 in codec.PRE_BYTES:
            continue
        us.append(dict(b0=b0, L=codec.FULL, want=want))
    pres = QUICK_PRES if tier == "quick" else codec.PRE_BYTES
    for p in pres:
        for b1 in range(256):
            us.append(dict(b0=p, b1=b1, L=codec.FULL, want=want))
    for p in codec.PRE_BYTES:
        us.append(dict(b0=p, L=1, want=want))      # a prefix byte alone
    us.append(dict(b0=0, L=0, want=want))          # the empty buffer
    heavy = {0x44, 0x45, 0x46, 0x4C, 0x4D, 0x4E, 0xED, 0xFD, 0xF0, 0xF1, 0xF2, 0xF3, 0xF8, 0xF9, 0xFA, 0xFB, 0x98, 0x99, 0x9A, 0x9B, 0x9C, 0x9D, 0x9E,
             0xB8, 0xB9, 0xBA, 0xBB, 0xBC, 0xBD, 0xBE}
    us.sort(key=lambda u: 0 if (u.get("b1") if u.get("b1") is not None else u["b0"]) in heavy else 1)
    return us


def run(prop, tier):
    v = common.Verdict(prop, "proof")
    v.functions = FUNCS
    known = common.load_known(prop)
    reps = common.run_units("contracts.codec:unit", units(tier, "C01"), budget=600)
    v.absorb(reps, known)
    proved = (v.obligations, v.discharged)
    hunits = [dict(b0=b, samples=3 if tier == "quick" else 24, seed=common.seed() + 17, kind="hooks-after-history", replayer="contracts.codec:replay_hooks_history") for b in range(256)]
    hreps = common.run_units("contracts.codec:unit_hooks_history", hunits, budget=300)
    v.absorb(hreps, known)
    nb = (v.obligations - proved[0], v.discharged - proved[1])
    v.obligations, v.discharged = proved
    v.extra["bounded_obligations"] = dict(generated=nb[0], discharged=nb[1], note="concrete callback histories: bounded, not counted in obligations/discharged")
    hist_note = dict(part="architecture callbacks after a history sharing a byte prefix (contracts.codec:unit_hooks_history)",
                     bound=f"256 first bytes x {hunits[0]['samples']} (x3 behind a prefix) concrete byte strings x every shared-prefix length: what the callbacks say about s after they were asked about s' equals what the plain decoder says about s alone",
                     note="bounded companion of 'independent of anything decoded earlier' for caches keyed on part of the bytes (a symbolic byte string cannot follow a hash lookup)")
    v.assumptions = [
        "work unit = first byte (and second byte after a prefix); every other byte of an 8-byte buffer and the 20-bit address are symbolic; truncation to 0..7 bytes is checked on the same symbolic bytes inside each unit",
        "history independence = the shared OPCODES operand templates are structurally unchanged after every path (decode reads no other mutable module state), so by induction earlier decodes cannot matter",
        "emulator fetch compared at address 0x1000 over a symbolic memory holding the same bytes",
        "a lone prefix byte is returned by decode() as a 1-byte PRE object but rejected by get_instruction_info/llil; get_instruction_text renders it (the property only constrains text when info accepts)",
    ]
    v.bounded = [hist_note]
    if tier == "quick":
        v.bounded = [hist_note, dict(part="prefix x opcode pairs", bound=f"prefixes {[hex(p) for p in QUICK_PRES]} x 256 second bytes in the quick tier; all 15 in the thorough tier", note="each pair is itself proved for all remaining bytes")]
    for r in reps:
        if len(v.samples) < 5 and r.get("obligations", 0) > 20:
            v.samples.append(dict(unit=r["unit"], path_outcomes=r["kinds"], obligations=r["obligations"]))
    rule = ("per first byte (pair): real decode(), the three hooks and the emulator fetch on one symbolic buffer; obligations: no unexpected exception, 1 <= length <= supplied, "
            "accepted results read only their own bytes, info accepts => text and llil accept with the same length and mnemonic, fetch agrees / placeholder when rejected, "
            "truncated buffers rejected cleanly or give the same result, operand templates unchanged")
    return v.finish(f"./check {prop} --tier {tier}", rule, tier)
