"""C10: program layout (lemmas proved; the contract on assemble() checked bounded => level 'exploration')."""
from props import common
from contracts import asmlayout as AL

FUNCS = ["sc62015.pysc62015.sc_asm:Assembler._first_pass", "_get_statement_size", "_build_instruction", "_encode_statement", "_normalize_near_control_flow",
         "_evaluate_operand", "_apply_location", "_second_pass", "assemble", "sc62015.pysc62015.asm:AsmTransformer (executed on concrete text)"]


def run(prop, tier):
    v = common.Verdict(prop, "exploration")
    v.functions = FUNCS
    known = common.load_known(prop)
    forms = AL.symbolic_forms()
    units = [dict(fn="unit_size", form=f, kind="O-size") for f in forms]
    units += [dict(fn="unit_near", mnemonic=m, kind="O-near") for m in ("JP", "JPZ", "JPNZ", "JPC", "JPNC", "CALL")]
    nprog = 30 if tier == "quick" else 200
    nseeds = 16 if tier == "quick" else 32
    base = common.seed() * 1000
    units += [dict(fn="unit_layout", seed=base + s, programs=nprog, kind="layout (bounded)", replayer="contracts.asmlayout:replay_layout") for s in range(nseeds)]
    # programs with a real bss section (labels and defs reservations only; nothing of it may reach the image, whatever precedes it)
    units += [dict(fn="unit_layout", seed=base + 500 + s, programs=nprog, bss=True, kind="layout with bss (bounded)", replayer="contracts.asmlayout:replay_layout") for s in range(nseeds // 2)]
    reps = common.run_units("contracts.asmlayout:unit_any", units, budget=900)
    lem = [r for r in reps if r["unit"]["fn"] != "unit_layout"]
    lay = [r for r in reps if r["unit"]["fn"] == "unit_layout"]
    v.absorb(lem, known)
    v.extra["proved_lemmas"] = dict(obligations=v.obligations, discharged=v.discharged, forms=len(forms),
                                    note="O-size (pass-one size == pass-two length for every value of the symbolic operand and every address) and O-near (page rule) discharged by SYMX; "
                                         "reported here, the level of the property stays 'exploration' because the contract on assemble() is only checked bounded")
    v.absorb(lay, known)
    progs = sum((r.get("kinds") or {}).get("accepted", 0) + (r.get("kinds") or {}).get("rejected", 0) for r in lay)
    v.extra["evaluations"] = progs + len(forms)
    v.extra["distinct_nontrivial"] = sum((r.get("kinds") or {}).get("accepted", 0) for r in lay)
    v.bounded = [dict(part="Assembler.assemble layout / determinism / statelessness", bound=f"{nseeds} seeds x {nprog} generated programs of 3..12 statements (labels forward/backward, SECTION code/data, one .ORG, defb/defw/defl/defs/defm incl. backslashes, {len(AL.INSTR_POOL)} instruction templates)",
                      note="bounded; half of the bss programs have the canonical code/data/bss shape; the 'text' alias is not generated; reference = independent layout calculator that assembles every statement alone with symbols substituted")]
    v.assumptions = [
        "strings and the lark parser are outside the symbolic engine: source text is concrete, symbol VALUES are symbolic (bound after parsing) for the lemmas",
        "internal-memory offsets are parsed to integers by the transformer and cannot take symbols; they are covered through concrete text only",
        "page of a near jump/call = page of the instruction's own address (as the CPU semantics in JP_Abs.lift / CALL.lift)",
        "seeded generator: VERIF_SEED selects the program set",
    ]
    v.samples = [dict(lemma="size:pass1==pass2", form=forms[0]), dict(lemma="near:accepted-only-on-the-same-page", mnemonic="CALL")]
    if lay and lay[0].get("failed") is not None:
        v.samples.append(dict(generated_program=AL.gen_program(__import__("random").Random(base), 8)))
    rule = ("lemmas: per source form with a symbolic operand, _first_pass size == len(_encode_statement) for all symbol values/addresses; near control flow accepted iff same page. "
            "Bounded: generated programs, assemble() image and symbol table == reference layout; re-assembly on the same and on a used Assembler gives the same image; distinct = accepted programs")
    return v.finish(f"./check {prop} --tier {tier}", rule, tier)
