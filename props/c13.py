"""C13: timers fire exactly on period boundaries (Python: proof; Rust: not decided here)."""
from props import common

FUNCS = ["pce500.scheduler:TimerScheduler.advance (loop rule, both while loops)", "TimerScheduler.__post_init__/reset/next_mti/next_sti setters",
         "pce500.emulator:PCE500Emulator.save_snapshot/load_snapshot (timer, cycle-counter and in-interrupt fields)",
         "pce500.emulator:PCE500Emulator._tick_timers", "PCE500Emulator._set_isr_bits", "PCE500Emulator._simulate_wait (range rule: symbolic number of cycles)"]


def run(prop, tier):
    v = common.Verdict(prop, "proof")
    v.functions = FUNCS
    known = common.load_known(prop)
    reps = common.run_units("contracts.timers:unit_advance", [dict(enabled=True), dict(enabled=False)], budget=300)
    reps += common.run_units("contracts.timers:unit_cadence", [dict(kind="cadence-lemma")], budget=120)
    reps += common.run_units("contracts.timers:unit_reset_setters", [dict(kind="reset-setters")], budget=120)
    reps += common.run_units("contracts.timers:unit_tick", [dict(kind="tick->ISR")], budget=300)
    reps += common.run_units("contracts.timers:unit_snapshot", [dict(kind="snapshot-restore", in_interrupt=False), dict(kind="snapshot-restore", in_interrupt=True)], budget=300)
    reps += common.run_units("contracts.timers:unit_wait_all", [dict(kind="wait-all"), dict(kind="wait-all", in_interrupt=True), dict(kind="wait-all", enabled=False)], budget=300)
    ns = (1, 2, 3) if tier == "quick" else (1, 2, 3, 4, 5, 6)
    wait_units = [dict(n=n, kind="wait") for n in ns] + [dict(n=2, kind="wait", in_interrupt=True), dict(n=2, kind="wait", enabled=False)]
    bounded = common.run_units("contracts.timers:unit_wait", wait_units, budget=900)
    # the WAIT loop is a bounded stand-in: verdicts count, obligation numbers are reported separately
    nb = sum(r.get("obligations", 0) for r in bounded)
    for r in bounded:
        r["bounded"] = True
    v.absorb(reps, known)
    before = (v.obligations, v.discharged)
    v.absorb(bounded, known)
    v.extra["bounded_obligations"] = dict(count=nb, note="_simulate_wait checked for concrete cycle counts only; included in obligations/discharged above? no: subtracted below")
    # do not count bounded obligations as proved
    v.obligations, v.discharged = before
    v.extra["bounded_obligations"] = dict(generated=nb, discharged=sum(r.get("proved", 0) for r in bounded),
                                          note="_simulate_wait for n in %s concrete cycles: bounded, not counted in obligations/discharged" % (list(ns),))
    v.bounded = [dict(part="PCE500Emulator._simulate_wait executed whole", bound=f"n in {list(ns)} cycles, periods/targets/cycle base unbounded symbolic integers",
                      note="bounded companion of unit_wait_all (range rule, every n): also covers a rewritten WAIT loop that the rule no longer matches")]
    from props import rust_standin as RS
    vec = dict(timer=RS.timer_vectors(tier))
    wt = [(m, s_, nb, wi) for m in (3, 7, 10, 40) for s_ in (0, 4, 9) for nb in (0, 1, 3) for wi in ((0, 1, 5, 6, 10, 12, 25) if tier == "quick" else (0, 1, 2, 3, 5, 6, 9, 10, 11, 12, 25, 39, 40, 41, 100))]
    vec["wait_timers"] = dict(cases=[dict(mp=m, sp=s_, nops_before=nb, wait_i=wi, steps_after=60) for m, s_, nb, wi in wt])
    vec["timer_restore"] = dict(all=True)
    res = RS.run(vec, ["timer", "wait_timers", "timer_restore"])
    v.absorb(RS.reports(res, vec, ["timer", "wait_timers", "timer_restore"]), known, expect_obligations=False)
    v.obligations, v.discharged = before
    v.bounded.append(RS.summarize(res, "timer", "TimerContext::tick_timers on the compiled crate: all period pairs 0..%d x 0..%d (0 = off)%s, enabled and disabled; tick every cycle 0..39, "
                                  "monotone sequences with gaps up to 2^21, reset at a non-zero base, restored targets that are already due, ISR pre-set to 0x00/0x80/0x03/0x54; "
                                  "expected fired pair, next targets and ISR byte from the closed form of the advance() contract" % ((6, 6, "") if tier == "quick" else (12, 12, " plus 4 large pairs"))))
    v.bounded.append(RS.summarize(res, "wait_timers", f"CoreRuntime::step over NOPs, one WAIT and NOPs on the compiled crate, {len(wt)} cases (main period 3/7/10/40, sub period off/4/9, 0/1/3 NOPs before, WAIT counts {sorted(set(x[3] for x in wt))}): "
                                  "a step raises a status bit iff a period boundary lies in its cycle interval, next target strictly in the future and on the boundary grid, zero-period timers silent; laws stated in the Rust test"))
    v.bounded.append(RS.summarize(res, "timer_restore", "TimerContext::apply_snapshot_info on the compiled crate: receiving contexts built with periods 8/32, 0/0, 5/7 x saved periods {0,3,7} x {0,4,9} x saved targets "
                                  "before / at / after the current cycle x enabled on/off: the restored fields are exactly the saved ones; ticked every cycle for 60 cycles a zero-period timer never fires and the others fire on "
                                  "their boundaries (closed form from the saved target and period)"))
    v.assumptions = [
        "mathematical (unbounded) integers for periods, targets and cycle counts: no machine-width assumption",
        "loop invariant of advance(): period > 0, target = target0 + k*period (ghost k >= 0), target - period <= cycle; variant cycle - target + 1",
        "_tick_timers/_simulate_wait run on a context stub (SimpleNamespace with the real methods bound): memory = symbolic byte array, keyboard.scan_tick() returns no events, tracing off",
        "_tick_timers contract stated for the tick-every-cycle regime (targets strictly after the previous cycle), which is how step()/_simulate_wait call it",
        "snapshot restore point: the real save_snapshot/load_snapshot pair on two real PCE500Emulator objects with symbolic cycle counter, periods, targets and enable flag; json (ints and bools survive dumps/loads) and zipfile (an archive returns the members written) are contract stubs; every other persisted field is the concrete power-on state",
    ]
    v.samples = [dict(obligation="mti:fires-iff-due", statement="forall mti_period,next_mti,cycle in Z: MTI in advance(cycle) <=> enabled and mti_period > 0 and cycle >= next_mti"),
                 dict(obligation="loop0:inv-preserved", statement="Inv and cycle >= next_mti => Inv[next_mti += period, k+1]"),
                 dict(obligation="range0:inv-preserved (wait)", statement="forall n, j < n, periods, targets, c0: Inv(j) => after one real loop body Inv(j+1), where Inv(j): cycle = c0+j, next_T = next_T0 + k_T*period_T > cycle, k_T = 0 or next_T - period_T <= cycle, #ISR updates of T = k_T"),
                 dict(obligation="cadence:exactly-one-period", statement="contract(advance) and target > cycle-1 and cycle >= target => target' = target + period")]
    rule = ("contract of TimerScheduler.advance discharged with the loop rule over unbounded integers (13 paths); cadence as a z3 lemma over that contract; "
            "reset/setters; snapshot save/load round trip of the scheduler state; _tick_timers ISR mapping on a context stub; _simulate_wait for a symbolic number of cycles by the range rule "
            "(invariant: #status-bit updates = #boundaries crossed, target = next boundary > cycle); bounded per-cycle WAIT log as companion")
    return v.finish(f"./check {prop} --tier {tier}", rule, tier)
