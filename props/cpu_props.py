"""C03 / C04 / C07: instruction semantics, operand locations, history independence.

All three run the real Emulator.execute_instruction (decode -> lift -> evaluate_llil) on
symbolic operands/state; see contracts/cpu.py and spec/isa.py."""
from __future__ import annotations

import sys

from props import common
from contracts import cpu

FUNCS = [
    "sc62015.pysc62015.emulator:Emulator.execute_instruction/_execute_instruction_impl/decode_instruction/evaluate",
    "sc62015.pysc62015.emulator:Registers.get/set/get_flag/set_flag",
    "sc62015.pysc62015.instr.opcodes:decode/fusion/iter_decode/create_instruction, Instruction.decode/render/lift/_addressing_modes, every operand class decode/render/lift/lift_assign/lift_current_addr, lift_loop",
    "sc62015.pysc62015.instr.instructions:every <Mnemonic>.lift/lift_operation1/lift_operation2/analyze, lift_multi_byte, bcd_add_emul, bcd_sub_emul, PRE.fuse",
    "sc62015.pysc62015.intrinsics:eval_intrinsic_halt/off/reset/tcl",
    "sc62015.pysc62015.cached_decoder:CachedFetchDecoder.*",
    "sc62015.pysc62015.stepper:CPUStepper.step, _SnapshotMemory, CPURegistersSnapshot.diff; sc62015.pysc62015.cpu:CPU.step_snapshot/apply_snapshot/snapshot_registers (C07)",
    "(executed in context, third party) binja_test_mocks.eval_llil:evaluate_llil and EVAL_LLIL handlers",
]

BCD_OPS = {0xC4, 0xC5, 0xD4, 0xD5}
QUICK_PRES_C03 = [0x21, 0x27, 0x30, 0x36]   # together they exercise every first/second mode
ASSUME = [
    "meaning of the lifted IL = what binja_test_mocks.eval_llil computes (the evaluator the emulator runs)",
    "specification = /verif/spec/isa.py, my transcription of sc62015/pysc62015/README.md; where the README is silent the case is excluded by a stated definedness condition (pointer arithmetic leaving the 1 MiB external space, internal multi-byte accesses / block cursors running past (FF), stack under/overflow, near jumps/calls/returns whose next address crosses a 64 KiB page, register both data and auto-modified pointer, BCD digits > 9, exchange overwriting a BP/PX/PY cell its other operand uses)",
    "left open by the README and therefore unconstrained: C after SWAP, C/Z after HALT/OFF, bits 2-7 of a pushed/popped F byte, SSR bit 2 and the IMR cell after RESET",
    "X, Y, U, S, PC are 20-bit (property statement) although the README register table says 24",
    "tracing disabled (no _perf_tracer on the memory object)",
    "binja_test_mocks.eval_llil is loaded from its real source with one mechanical rewrite: `K1 if c else K2` with two literal constants -> ite(c, K1, K2) (flag bits `1 if result == 0 else 0`); literal arms have no effects, so the value is the one CPython computes; nothing is dropped",
    "instruction placed at 0x1000 (C05 varies the address); bytes after the instruction are unconstrained symbols",
]


def imem_opcodes():
    """Opcodes whose rendered text contains an internal-memory operand (decided by decoding)."""
    import os
    os.environ["FORCE_BINJA_MOCK"] = "1"
    if common.REPO not in sys.path:
        sys.path.insert(0, common.REPO)
    from symx import env
    env.setup()       # before any import of the repo, so that the evaluator's source transform is in place
    from sc62015.pysc62015.instr import decode, OPCODES
    from binja_test_mocks.tokens import asm_str
    out = set()
    for op in range(256):
        for mb in (0x04, 0x24, 0x84, 0x00, 0x80, 0x42):
            try:
                ins = decode(bytes([op, mb, 0x12, 0x34, 0x05, 0x66, 0x77]), 0x1000, OPCODES)
                if ins is not None and "(" in asm_str(ins.render()):
                    out.add(op)
            except Exception:  # noqa: BLE001
                pass
    return out


def units_for(prop, tier):
    units = []

    def add(pre, blocks, only=None, **kw):
        for op in range(256):
            if op in cpu.PRE_BYTES or (only is not None and op not in only):
                continue
            if op in cpu.BLOCK_OPS or (op == 0xEF and pre is not None):
                # (a prefixed WAIT misses the emulator's fast path and really loops I times)
                for n in blocks:
                    if op in BCD_OPS and n > kw.get("bcd_max", 1):
                        continue        # BCD digit adjust forks 4 ways per byte at IL level
                    units.append(dict(pre=pre, opcode=op, block_n=n, wall_s=kw.get("wall_s", 500)))
            else:
                units.append(dict(pre=pre, opcode=op, wall_s=kw.get("wall_s", 500)))

    allpres = sorted(cpu.PRE_BYTES)
    if prop == "C04":
        if tier == "quick":
            for pre in (None, 0x32, 0x25, 0x30):
                add(pre, [1, 2, 3], bcd_max=2)
        else:
            for pre in [None] + allpres:
                add(pre, [1, 2, 3], wall_s=3000, bcd_max=2)     # (every I >= 1 is covered by the loop rule)
    elif prop == "C03":
        im = imem_opcodes()
        if tier == "quick":
            for pre in allpres:
                add(pre, [1, 2], only=im, bcd_max=2)
        else:
            for pre in allpres:
                add(pre, [1, 2, 3], wall_s=3000, bcd_max=2)
            add(None, [1, 2, 3], wall_s=3000, bcd_max=2)
    # counted instructions for every I >= 1: loop rule at IL level (contracts/blockind.py)
    if prop == "C04":
        ipres = [None, 0x32, 0x25, 0x30] if tier == "quick" else [None] + allpres
    else:
        ipres = allpres if tier == "quick" else [None] + allpres
    for pre in ipres:
        for op in sorted(cpu.BLOCK_OPS):
            units.append(dict(pre=pre, opcode=op, induction=True, wall_s=900))
    # control skeleton of the counted loop for every count 1..0xFFFF (no definedness condition bounds the count here)
    for pre in ([None, 0x32] if tier == "quick" else [None] + allpres):
        for op in sorted(cpu.BLOCK_OPS):
            units.append(dict(pre=pre, opcode=op, induction=True, skeleton=True, wall_s=600))
    heavy = {0xD4: 0, 0xC4: 1, 0xD5: 2, 0xC5: 3, 0x56: 4, 0x5E: 4, 0xF3: 5, 0xFB: 5, 0xEB: 6, 0xE3: 6, 0x54: 7, 0x5C: 7}
    units.sort(key=lambda u: (heavy.get(u["opcode"], 50) - 10 * (u.get("block_n") or 0), u["opcode"]))
    return units


def hist_units(tier):
    units = []
    pres = [None] if tier == "quick" else [None, 0x25, 0x32]
    nh = len(cpu.HISTORY)
    for pre in pres:
        for op in range(256):
            if op in cpu.PRE_BYTES:
                continue
            block = op in cpu.BLOCK_OPS or (op == 0xEF and pre is not None)
            if tier == "quick":
                hs = [0, 2, 4] if block else ([0, 3] if op in (0x06, 0x07, 0x01, 0x04, 0x05) else ([0, 5] if op in (0xDE, 0xDF, 0xFF, 0xEF) else [0, 6]))
                hs = hs + [7]      # tracing state (tracer attached) for every instruction
            else:
                hs = list(range(nh))
            for h in hs:
                if block:
                    # I = 0 (loop skipped: nothing may leak from scratch state) and I >= 1
                    for n in ((0, 1) if tier == "quick" else (0, 1, 2)):
                        if op in BCD_OPS and n > 1:
                            continue
                        units.append(dict(pre=pre, opcode=op, hist=h, wall_s=500, block_n=n))
                else:
                    units.append(dict(pre=pre, opcode=op, hist=h, wall_s=500))
    heavy = {0xD4: 0, 0xC4: 1, 0xD5: 2, 0xC5: 3}
    units.sort(key=lambda u: heavy.get(u["opcode"], 50))
    return units


def _bounded_note(units):
    ns = sorted({u.get("block_n") for u in units if u.get("block_n")})
    ind = sorted({u["opcode"] for u in units if u.get("induction")})
    out = [dict(part="counted (block) instructions MVL/MVLD/EXL/ADCL/SBCL/DADL/DSBL/DSLL/DSRL executed whole",
                bound=f"iteration count I in {ns} (concrete), all other state symbolic",
                note="bounded companion of the induction below: whole-instruction result (final flags, I, pointer registers) for these counts only")]
    if ind:
        out.append(dict(part="prefixed WAIT (really loops I times) and I = 0 for every counted instruction",
                        bound=f"WAIT: I in {ns}; I = 0 is not covered by the induction (README does not say whether a pre-decrement/post-increment set-up happens when the loop is skipped)",
                        note="bounded / not decided"))
    return out


def _induction_note(units):
    ind = sorted({u["opcode"] for u in units if u.get("induction")})
    if not ind:
        return None
    return ("counted instructions " + ",".join(f"{o:02X}" for o in ind) + " are proved for EVERY I >= 1 by a loop rule applied to the IL the real "
            "Emulator interprets (contracts/blockind.py): init obligations at the first arrival at the loop head, then all TEMP registers, I, F and the "
            "auto-modified pointer register are havoced under the linear invariant I = n - j, cursor = first + dir*j, and ONE execution of the real loop "
            "body must perform the documented element step j, produce the documented carry, accumulate Z, re-establish the invariant or exit with "
            "j + 1 = n; exit obligations give I = 0, final pointer register, Z from the accumulator, other registers untouched")


def run(prop, tier):
    v = common.Verdict(prop, "proof")
    v.functions = FUNCS
    v.assumptions = list(ASSUME)
    known = common.load_known(prop)
    if prop in ("C03", "C04"):
        units = units_for(prop, tier)
        for u in units:
            u["known"] = [e for e in known if "witness" in e.get("match", {}) and common.unit_matches(e, u)]
        reps = common.run_units("contracts.blockind:unit_dispatch", units, budget=max(u["wall_s"] for u in units))
        # C03 looks at locations (memory image, pointer registers, read footprint); C04 at everything.
        v.absorb(reps, known)
        v.bounded = _bounded_note(units)
        if prop == "C04":
            # whole counted instructions with large counts, natively (the loop rule cuts the interpreter loop after one round)
            from contracts import block_large_keys as BLK
            proved = (v.obligations, v.discharged)
            counts = [0xFFFF] if tier == "quick" else [0xFFFF, 0x8000, 0x7FFF, 0x0100]
            lunits = [dict(key=k, counts=counts, kind="large-count", replayer="contracts.block_large:replay") for k in BLK.KEYS]
            lreps = common.run_units("contracts.blockind:unit_large_count", lunits, budget=600)
            v.absorb(lreps, known)
            nb = (v.obligations - proved[0], v.discharged - proved[1])
            v.obligations, v.discharged = proved
            v.extra["bounded_obligations_large_counts"] = dict(generated=nb[0], discharged=nb[1], note="native whole-instruction runs with large counts: bounded, not counted in obligations/discharged")
            v.bounded.append(dict(part="counted instructions executed whole with large counts (contracts/block_large.py, plain CPython)",
                                  bound=f"{len(BLK.KEYS)} counted forms x I in {[hex(c) for c in counts]}: the instruction ends with I = 0 without error, an auto-modified pointer moved by I elements, "
                                        "the number of byte stores equals the number of elements",
                                  note="bounded companion of the loop rule for anything that ends a long run early from outside the IL (a step budget in the interpreter); values are covered by the induction"))
        if _induction_note(units):
            v.extra["induction"] = _induction_note(units)
        for r in reps:
            if r.get("texts") and len(v.samples) < 8 and r.get("obligations"):
                v.samples.append(dict(unit=r["unit"], rendered=r["texts"][:3], obligations=r["obligations"],
                                      obligation_names=["reg:BA", "reg:I", "reg:X", "reg:Y", "reg:U", "reg:S", "reg:PC", "reg:F", "mem", "halted", "reads"],
                                      paths=r["stats"].get("paths")))
        rule = ("work unit = (prefix byte, opcode[, block count]); every operand byte, BA/I/X/Y/U/S/F, TEMP0-13 and the whole memory "
                "(z3 array) symbolic; per path obligations: each register == documented value, memory image == documented image "
                "(point-wise for an arbitrary index => also 'nothing else changed'), every byte read is an instruction byte or a location "
                "denoted by the rendered text")
    else:
        units = hist_units(tier)
        reps = common.run_units("contracts.cpu:hist_entry", units, budget=600)
        # the snapshot stepper (stepper.py: CPUStepper.step / CPU.step_snapshot) against its contract: the effect of
        # execute_instruction on a fresh Emulator, whatever was stepped before
        sunits = [dict(case=c, sparse=sp, default=d, kind="stepper") for c in range(len(cpu.STEP_CASES)) for sp in (False, True) for d in ((0,) if not sp else (0, 0x5A))]
        reps += common.run_units("contracts.cpu:unit_stepper", sunits, budget=300)
        v.absorb(reps, known)
        proved = (v.obligations, v.discharged)
        cunits = [dict(pre=pre, opcode=op, samples=6 if tier == "quick" else 40, seed=common.seed(), kind="concrete-history")
                  for pre in ([None, 0x32] if tier == "quick" else [None, 0x32, 0x25, 0x21]) for op in range(256) if op not in cpu.PRE_BYTES]
        creps = common.run_units("contracts.cpu:unit_hist_concrete", cunits, budget=300)
        v.absorb(creps, known)
        v.obligations, v.discharged = proved
        v.extra["bounded_obligations"] = dict(generated=sum(r.get("obligations", 0) for r in creps), discharged=sum(r.get("proved", 0) for r in creps),
                                              note="concrete sampled histories sharing leading instruction bytes (caches keyed on partial bytes): bounded, not counted")
        v.bounded = _bounded_note(units) + [dict(part="history", bound="3 concrete history instructions executed on the same Emulator object at the same address; TEMP0-13 fully symbolic and different in the two runs",
                                                 note="TEMP contents are covered for all values; other hidden state only through the listed histories"),
                                            dict(part="CPUStepper.step / CPU.step_snapshot", bound=f"{len(cpu.STEP_CASES)} instructions with direct operand addresses (image keys must stay concrete), register values and data bytes symbolic, every case also used as history",
                                                 note="contract: result == execute_instruction on a fresh Emulator; proved per listed instruction, the instruction list itself is a sample")]
        from props import rust_standin as RS
        vec = dict(hist=dict(seed=common.seed() + 1, patterns=6 if tier == "quick" else 40),
                   split=dict(totals=[6, 12, 40] if tier == "quick" else [4, 6, 9, 12, 25, 40, 100, 333]))
        res = RS.run(vec, ["hist", "split"])
        keep = (v.obligations, v.discharged)
        v.absorb(RS.reports(res, vec, ["hist", "split"]), known, expect_obligations=False)
        v.obligations, v.discharged = keep
        v.bounded.append(RS.summarize(res, "hist", f"one CoreRuntime::step on the compiled crate for every opcode byte x {vec['hist']['patterns']} operand patterns (3 fixed, the rest seeded random), "
                                                   "fresh runtime vs. runtime that executed a history program (CALL/RET, MVL, open CALLF) and carries junk in TEMP0-13, call depth/sub level, call stack and call-page stack; "
                                                   "same registers/flags/memory in => same eight registers, power state, step result and written bytes out"))
        v.bounded.append(RS.summarize(res, "split", f"six programs (plain code, a program raising a status bit itself, two pending sources, timers with a handler, HALT and OFF executed in the middle of a batch with timers running) run for {vec['split']['totals']} instructions "
                                                    "on the compiled crate under five splits of the step() calls vs. one instruction per call: same registers, cycle count and written bytes"))
        v.assumptions.append("Rust half of C07 (LlamaState call bookkeeping, scratch registers, history) NOT proved: bounded stand-in on the compiled crate only; PERF statics / thread-locals not decided")
        v.samples.append(dict(unit=units[0], obligations=["same-outcome", "hist:reg:*", "hist:mem", "hist:halted", "module-state-unchanged"]))
        rule = ("2-safety: the same symbolic registers/flags/memory executed (a) on a fresh Emulator with TEMP registers = symbols a_i and "
                "(b) on an Emulator that first ran a history instruction at the same address, with TEMP registers = other symbols b_i; "
                "obligations: outcomes, every architectural register, the memory image (point-wise) and halted are equal; simple module globals unchanged")
    return v.finish(f"./check {prop} --tier {tier}", rule, tier)
