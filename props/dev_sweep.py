"""Development helper: sweep CPU work units and print a triage table."""
import json, sys, os
sys.path.insert(0, os.path.dirname(os.path.dirname(os.path.abspath(__file__))))
from props import common
from contracts import cpu

def main():
    pres = [None]
    if len(sys.argv) > 1:
        pres = [None if a == '-' else int(a, 16) for a in sys.argv[1].split(',')]
    blocks = [1, 2] if len(sys.argv) < 3 else [int(x) for x in sys.argv[2].split(',')]
    units = []
    for pre in pres:
        for op in range(256):
            if op in cpu.PRE_BYTES:
                continue
            if op in cpu.BLOCK_OPS:
                for n in blocks:
                    units.append(dict(pre=pre, opcode=op, block_n=n, wall_s=300))
            else:
                units.append(dict(pre=pre, opcode=op, wall_s=300))
    reps = common.run_units("contracts.cpu:unit_entry", units, budget=300)
    reps.sort(key=lambda r: (str(r['unit'].get('pre')), r['unit']['opcode'], r['unit'].get('block_n') or 0))
    json.dump(reps, open('/tmp/sweep.json', 'w'), default=str)
    tot = dict(ob=0, proved=0, failed=0)
    for r in reps:
        tot['ob'] += r.get('obligations', 0); tot['proved'] += r.get('proved', 0); tot['failed'] += r.get('nfailed', 0)
        u = r['unit']
        flag = r['status'] != 'ok' or r.get('nfailed') or r.get('unknown') or r.get('undecided_notes') or any(k in ('exception','unimplemented','not-specified') for k in (r.get('kinds') or {}))
        if flag:
            print('%s %02X n=%s %s %s kinds=%s ob=%d failed=%d t=%s' % (u.get('pre') and hex(u['pre']), u['opcode'], u.get('block_n'), r['status'], (r.get('error') or '')[:200], r.get('kinds'), r.get('obligations', 0), r.get('nfailed', 0), r.get('wall_s')))
            seen = set()
            for f in r.get('failed') or []:
                key = (f['name'], f['detail'])
                if key in seen: continue
                seen.add(key)
                m = {k: hex(v) if isinstance(v, int) else v for k, v in (f.get('model') or {}).items() if not k.startswith('TEMP') and not k.startswith('@') and v}
                print('     FAIL', f['name'], '|', f['detail'], '|', m)
            for n in (r.get('undecided_notes') or [])[:2]:
                print('     NOTE', n)
    print(tot, 'units', len(reps), 'wall max', max(r.get('wall_s', 0) for r in reps))

main()
