#!/bin/bash
# usage: rustbuild.sh <repo root (worktree)> <rust integration test file.rs> -> builds sc62015/core of that tree offline in a scratch copy and runs the test
set -e
ROOT=$1; TEST=$2
D=$(mktemp -d /tmp/verif_rustdemo_XXXX)
trap "rm -rf $D" EXIT
cp -r $ROOT/sc62015/core/src $D/src
cat > $D/Cargo.toml <<'EOT'
[package]
name = "sc62015-core"
version = "0.1.0"
edition = "2021"
autobins = false
[dependencies]
serde = { version = "1.0", features = ["derive"] }
serde_json = "1.0"
thiserror = "1.0"
[features]
default = []
llama-tests = []
cli = []
perfetto = []
snapshot = []
EOT
mkdir -p $D/tests $D/vendor $D/.cargo; cp $TEST $D/tests/demo.rs
R=$(ls -d ~/.cargo/registry/src/*/ | head -1)
for c in itoa-1.0.17 memchr-2.7.6 proc-macro2-1.0.106 quote-1.0.45 serde-1.0.228 serde_core-1.0.228 serde_derive-1.0.228 serde_json-1.0.149 syn-2.0.117 thiserror-1.0.69 thiserror-impl-1.0.69 unicode-ident-1.0.24 zmij-1.0.18; do cp -r $R/$c $D/vendor/$c; echo '{"files":{},"package":null}' > $D/vendor/$c/.cargo-checksum.json; done
printf '[source.crates-io]\nreplace-with = "vendored"\n[source.vendored]\ndirectory = "vendor"\n[net]\noffline = true\n' > $D/.cargo/config.toml
cd $D && cargo test --offline --test demo -- --nocapture 2>&1 | tail -30
exit ${PIPESTATUS[0]}
