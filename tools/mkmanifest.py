#!/usr/bin/env python3
"""Regenerate MANIFEST.json from the table below and validate it."""
import json, os, sys
HERE = os.path.dirname(os.path.dirname(os.path.abspath(__file__)))
TB = "trusted base: CPython 3.12 executing the real functions, z3 5.1 / cvc5 1.0.3, the SYMX engine (self-tested before every check), namespace shims, binja_test_mocks executed not verified"
CHECKS = {
 "C01": ("proof", "per-opcode contracts on the real iter_decode/fusion/decode, the three architecture hooks and the emulator fetch path (fresh and after a decode history on the same Emulator) over fully symbolic byte strings of every length 0..8 (Python; C01 has no Rust part)", "decode history independence via an operand-template frame obligation; " + TB, "5 C01"),
 "C02": ("proof", "encode(decode(b)) == consumed bytes for every opcode x prefix over fully symbolic operand bytes (all don't-care bits), re-decode agreement and the round-trip guard never demoting an accepted instruction", TB, "5 C02"),
 "C03": ("proof", "per (prefix, opcode): the memory image and pointer registers after executing the lifted IL equal the image obtained by applying the documented semantics to the locations denoted by the rendered text, and every byte read is a denoted location; all operand bytes, BP/PX/PY, registers and memory symbolic. Counted instructions for every I >= 1 by an IL-level loop rule (init / one havoced body execution under a linear invariant / exit); whole counted instructions at concrete I as bounded companion; internal block cursors count modulo 256 (runs past (FF) decided)", "specification = spec/isa.py (README transcription); README-silent corners excluded by listed definedness conditions; " + TB, "5 C03"),
 "C04": ("proof", "per opcode: every architectural register, both flags, the whole memory image and the halted state after Emulator.execute_instruction equal the README semantics for all operand values and all surrounding state (frame included); counted instructions for every I >= 1 by the IL-level loop rule (element step, carry chain, zero accumulator, cursors, exit state), concrete I in {1,2,3[,4]} as bounded companion; I = 0 and prefixed WAIT not covered by the induction; internal block cursors count modulo 256 (runs past (FF) and counts up to 0xFFFF decided)", "specification = spec/isa.py; listed definedness conditions and unconstrained outputs; " + TB, "5 C04"),
 "C05": ("proof", "branch records produced by the real analyze() vs the PC reached by the real IL evaluation, at a symbolic 20-bit address, all operands/flags/stack symbolic, control-flow opcodes also behind PRE bytes, accepted instructions without documented semantics included; CALL/RET, CALLF/RETF, IR/RETI inverse laws as z3 lemmas over the instruction contracts", "near CALL/RET law needs caller and RET on the same 64 KiB page (stated and shown necessary); " + TB, "5 C05"),
 "C07": ("proof", "2-safety contract on Emulator.execute_instruction per opcode: fresh emulator vs emulator with an execution history, TEMP0-13 arbitrary and different, same architectural inputs => same outputs (histories incl. calls on another page and a HALT that left the power-state flag set); module globals unchanged (Python half); Rust core only by bounded two-run and step-split stand-ins; histories include a tracer attached to the memory (tracing state); the snapshot stepper also with its returned image dict edited in place and handed back", "hidden state other than TEMPs is covered through the listed concrete history instructions; Rust half not proved: bounded two-run stand-in on the compiled crate (never counted), statics/thread-locals not decided; " + TB, "5 C07"),
 "C08": ("proof", "contracts on Registers.get/set (+by-name, flag API) for every register name, arbitrary prior file and arbitrary 64-bit written value, the algebraic law as a lemma over the contract, snapshot round trip and register blob layout (Python half); Rust LlamaState::set_reg/get_reg only by a bounded stand-in on the compiled crate", "Rust half not proved: bounded stand-in (never counted); snapshot.rs constants compared under C17; " + TB, "5 C08"),
 "C09": ("exploration", "bounded contract check of Assembler.assemble over the structural enumeration of accepted encodings (opcode x all 15 prefixes x selector/mode bytes, operand values from a palette incl. zero displacements, named internal registers): assemble(text) succeeds, same text, same lifted IL, second round fixpoint; plus a listing round trip through ONE Assembler (no state from line to line). On the unchanged tree several whole classes fail; each root cause is one known finding and anything outside them is reported", "strings and the lark parser cannot be carried symbolically; operand values are sampled, structure is complete; " + TB, "5 C09 / 10.5"),
 "C10": ("exploration", "bounded contract check of Assembler.assemble on generated programs against an independent layout calculator (bytes at addresses, symbol table, determinism, statelessness); the three lemmas O-size (pass-one size == pass-two bytes for every symbol value), O-value (the emitted bytes decode to an operand equal to the symbol, every value) and O-near (page rule) are proved by SYMX and reported under proved_lemmas", "strings and the lark parser cannot be carried symbolically: the contract on assemble() is bounded (generated programs, seeded); " + TB, "5 C10"),
 "C11": ("proof", "memory laws (read-back, read-only windows, frame/no-alias, alias agreement, little-endian composition) on the real PCE500Memory/MemoryBus for symbolic 32-bit addresses under 12 configurations incl. overlays at symbolic addresses (Python half); Rust MemoryImage only by a bounded law check on the compiled crate", "Rust half not proved: bounded stand-in (never counted); RuntimeBus not decided; device windows excluded; " + TB, "5 C11"),
 "C12": ("proof", "only the contract-sized clauses: delivery gate (both directions), 5-byte frame, master enable cleared, nothing else written, masked request kept, HALT wake-up, RETI step keeps a pending request, on one real PCE500Emulator.step over symbolic IMR/ISR/pending/F/S; IR/RETI inverse as a lemma over the instruction contracts; the OFF clause (a powered-off CPU stops both timers) decided on the real OFF instruction followed by one real step (Python model violates it: listed finding)", "the schedule/liveness clauses (prompt delivery over several steps, HALT/OFF timing, all interleavings) are NOT decided; the Rust runtime only by bounded law checks on the compiled crate (one CoreRuntime::step over all IMR/ISR values; scenarios with timer expiries inside a handler) (never counted); " + TB, "5 C12"),
 "C13": ("proof", "contract of TimerScheduler.advance discharged with the loop rule over unbounded integers, cadence lemma over the contract, reset/setters, snapshot save/load round trip of the scheduler state, ISR mapping of _tick_timers; WAIT loop bounded (Python half); Rust TimerContext::tick_timers only by a bounded stand-in on the compiled crate", "Rust half not proved: bounded stand-in (never counted); _simulate_wait bounded (n <= 4/6 cycles); " + TB, "5 C13"),
 "C14": ("proof", "per-key debounce/repeat automaton contract for all states/thresholds, key operations establish the invariant, FIFO against its sequence view for all head/tail pairs, scan_tick, KEYI gating; row computation bounded in the number of non-idle keys (Python half); Rust KeyboardMatrix only by a bounded law check on the compiled crate; scan_tick bursts of 0..13 events in one tick (queue keeps the newest)", "Rust half not proved: bounded stand-in (never counted); " + TB, "5 C14"),
 "C15": ("proof", "HD61202 protocol contracts per operation on symbolic chip state/VRAM, chip-select routing for all 16 decodings, get_snapshot() agreement after every access, and the pixel map (7680 cells each proved to be one inverted VRAM bit, pairwise distinct) (Python half); Rust LcdController only by a bounded stand-in on the compiled crate", "Rust half not proved: bounded stand-in (never counted); " + TB, "5 C15"),
 "C16": ("proof", "Python half only: restore-point contract of the real PCE500Emulator.save_snapshot/load_snapshot pair on two real emulators with the state components symbolic: every register incl. scratch registers and call bookkeeping, power state, counters, interrupt latches, timer scheduler, keyboard matrix (one arbitrary key, strobe registers, queue), both LCD chips incl. every VRAM byte, and the memory image (external image, ROM / RAM-overlay / card payloads as z3 arrays, every content) are restored exactly; metadata fields vs. the Rust loader's structs as ground obligations; 'the future is unchanged' follows because step() is a deterministic function of the object graph -- that nothing outside the stated view differs is checked by a bounded deep-diff + lockstep companion on concrete scenarios (reported under bounded_parts, not counted as proved)", TB + "; json/zipfile contract stubs; the Rust runtime's save/load is NOT decided", "10.7"),
 "C17": ("proof", "one ground equality per duplicated table entry / constant across Python modules and Rust source text (tokenised), decided by evaluation; complete over the finite item set; architecture-level constants (max_instr_length vs the longest encoding, address_size)", "Rust side is read as source text, not compiled", "5 C17"),
}
NA = {
 "C06": "statement about sc62015/core/src/llama/eval.rs (Rust); no deductive verifier for Rust is installed and running both cores side by side is differential testing, a different family",
 "C18": "async Rust scheduler (futures, wakers, thread-locals); no Rust verifier and the property quantifies over schedules",
}
PENDING = {



}
built = [p for p in CHECKS if os.path.exists(os.path.join(HERE, "props", {"C03": "cpu_props", "C04": "cpu_props", "C07": "cpu_props"}.get(p, p.lower()) + ".py"))]
m = {
 "version": 1,
 "setup_cmd": "./setup.sh",
 "hooks": {"guard": "BINJA_ESR_VERIF",
           "enable": "none needed: checks import /repo's working tree (VERIF_REPO overrides) and instrument the loaded modules from /verif; there are no hook commits, only 'fix:' commits",
           "baseline_off_cmd": "cd /repo && /venv/bin/python -m pytest -ra -q -p no:cacheprovider --timeout=900 --continue-on-collection-errors",
           "source_commits": [], "add_only": True},
 "engines": [{"name": "SYMX", "path": "symx/", "serves_properties": built,
              "kind_free_text": "verification-condition generation by forward symbolic execution of the real Python functions (CPython + z3 proxies, exhaustive path enumeration, loop rule / merge passes re-derived from the real source), obligations discharged by z3 then cvc5; counter-models replayed natively"}],
 "checks": [], "not_applicable": [],
 "notes": "See DESIGN.md. Rust halves (C08, C11, C12, C13, C14, C15): bounded stand-ins on the compiled crate built in a scratch copy (props/rust_standin.py, rust_harness/), reported under bounded_parts and never counted as proved; skipped if cargo or the vendored crates are missing. Exit codes: 0 held, 1 violation (replayed or no-failing-input-found), 2 undecided, 3 checker error. Known findings: known_findings.json.",
}
for p in sorted(CHECKS):
    if p not in built:
        PENDING[p] = "check not built yet"
        continue
    cat, text, note, ref = CHECKS[p]
    m["checks"].append({"property_id": p, "quick_cmd": f"./check {p} --tier quick", "thorough_cmd": f"./check {p} --tier thorough",
                        "evidence_file": f"evidence/{p}.json", "replay_cmd_template": f"./check {p} --replay {{path}}", "engine": "SYMX",
                        "level_claimed": {"category": cat, "text": text, "design_ref": "DESIGN.md section " + ref},
                        "level_note": note,
                        "technique": "contract-based deductive verification of the real code: contracts on the real functions, VCs by symbolic execution, z3/cvc5" if p != "C17" else "contract-based: ground obligations between mechanically extracted tables, decided by evaluation"})
for p, r in sorted({**NA, **{k: v for k, v in PENDING.items() if k not in built}}.items()):
    m["not_applicable"].append({"property_id": p, "reason": r})
json.dump(m, open(os.path.join(HERE, "MANIFEST.json"), "w"), indent=1)
try:
    import jsonschema
    jsonschema.validate(m, json.load(open("/root/.vp/MANIFEST.schema.json")))
    print("MANIFEST valid;", len(m["checks"]), "checks;", len(m["not_applicable"]), "not applicable")
except ImportError:
    print("written (jsonschema not available)")
