#!/usr/bin/env python3
"""tools/seedstore.py PROP K "needs" "caught_by" -- keep a confirmed seeded change under /verif/seeded/PROP-K/"""
import json, os, shutil, sys
prop, k, needs, caught = sys.argv[1:5]
src = f"/tmp/seed/out_{prop}/{k}"
dst = f"/verif/seeded/{prop}-{k}"
os.makedirs(dst, exist_ok=True)
for f in ("patch.diff", "demo.py", "notes.md"):
    if os.path.exists(os.path.join(src, f)):
        shutil.copy(os.path.join(src, f), os.path.join(dst, f))
res = open(f"/tmp/seedres_{prop}_{k}.txt").read() if os.path.exists(f"/tmp/seedres_{prop}_{k}.txt") else ""
meta = dict(breaks_property=prop, needs_to_manifest=needs, origin="independent sub-agent given only the property text and a scratch worktree",
            confirmed=dict(how="tools/seedcheck.sh: scratch worktree of /repo HEAD; demo on pristine tree, patch applied, demo again, pinned suite, then ./check with VERIF_REPO=<scratch>",
                           raw=res.strip().splitlines()),
            caught_by=caught)
json.dump(meta, open(os.path.join(dst, "meta.json"), "w"), indent=1)
print("stored", dst)
