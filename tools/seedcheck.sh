#!/bin/bash
# tools/seedcheck.sh <PROP> <k> [check ids...]  — confirm a seeded change in a scratch worktree of /repo HEAD and run checks against it
# (VERIF_REPO points the checks at the scratch tree; /repo itself is never touched)
set -u
P=$1; K=$2; shift 2
CHECKS=${@:-$P}
SRC=/tmp/seed/out_$P/$K
[ -d "$SRC" ] || SRC=/verif/seeded/$P-$K
WT=/tmp/seedwt_${P}_${K}
OUT=/tmp/seedres_${P}_${K}.txt
rm -rf "$WT"; git -C /repo worktree prune
git -C /repo worktree add -q --detach "$WT" HEAD || exit 9
cd "$WT"
echo "== $P/$K" > "$OUT"
rundemo() { if [ -f "$SRC/demo.rs" ]; then /verif/tools/rustdemo.sh "$WT" "$SRC/demo.rs" >/dev/null 2>&1; else PYTHONPATH=$WT FORCE_BINJA_MOCK=1 /venv/bin/python "$SRC/demo.py" >/dev/null 2>&1; fi; }
rundemo; echo "demo_pristine_exit=$?" >> "$OUT"
if git apply --3way "$SRC/patch.diff" 2>>"$OUT"; then echo "applies=yes" >> "$OUT"; else echo "applies=NO" >> "$OUT"; git -C /repo worktree remove --force "$WT"; cat "$OUT"; exit 0; fi
rundemo; echo "demo_mutant_exit=$?" >> "$OUT"
if [ "${SKIP_SUITE:-0}" != 1 ]; then
  PYTHONPATH=$WT FORCE_BINJA_MOCK=1 /venv/bin/python -m pytest -q -p no:cacheprovider --timeout=900 --continue-on-collection-errors 2>&1 | tail -1 >> "$OUT"
fi
for C in $CHECKS; do
  ( cd /verif && VERIF_REPO=$WT timeout 3000 ./check $C ${TIER:+--tier $TIER} > /tmp/seedres_${P}_${K}.$C.log 2>&1; echo "check_$C exit=$? $(grep -c '^VIOLATION' /tmp/seedres_${P}_${K}.$C.log) violations; $(grep '^VIOLATION' /tmp/seedres_${P}_${K}.$C.log | head -1)" >> "$OUT"; tail -1 /tmp/seedres_${P}_${K}.$C.log >> "$OUT" )
done
cd /; git -C /repo worktree remove --force "$WT"
cat "$OUT"
