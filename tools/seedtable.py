#!/usr/bin/env python3
"""Print the DESIGN.md section 11 table from seeded/*/meta.json."""
import glob, json, os
HERE = os.path.dirname(os.path.dirname(os.path.abspath(__file__)))
print("| seeded change | what it needs to manifest | caught by |")
print("|---|---|---|")
for f in sorted(glob.glob(os.path.join(HERE, "seeded", "*", "meta.json"))):
    m = json.load(open(f))
    name = os.path.basename(os.path.dirname(f))
    first = ""
    notes = os.path.join(os.path.dirname(f), "notes.md")
    if os.path.exists(notes):
        first = open(notes).readline().strip("# \n")
        first = first.split("—", 1)[-1].split(" - ", 1)[-1].strip()
    print(f"| `{name}` {first[:110]} | {m['needs_to_manifest']} | {m['caught_by']} |")
